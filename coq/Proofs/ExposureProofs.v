(* ExposureProofs.v — the exposure analysis of Model/Exposure.v against the pointwise NetworkPolicy semantics
   of Model/Spec.v:
     - selectors with the same requirement list match the same label sets (the meaning of a representative peer);
     - soundness (C06): every connection of a reported entry is allowed between the workload and ANY pod whose labels and
       namespace labels satisfy the entry's selectors (any pod at all for the entire-cluster entry);
     - the protected flag is "some policy governs the workload in that direction";
     - the shortcuts of exposure mode do not change the connections between real peers (C06's base report);
     - completeness (C07): every rule of a governing policy that matches a pod is covered by the entire-cluster entry or by
       the entry of the representative peer of its selector pair, unless that peer was refined away (documented) .
   No axioms. *)
From Coq Require Import List ZArith Bool String Lia ZifyBool.
From NP Require Import IntervalSet IntervalSetProofs ConnSet ConnSetProofs World Eval Spec EvalProofs
     Build Connlist ListProofs WfProofs Exposure.
Import ListNotations.
Open Scope list_scope.
Open Scope Z_scope.

(* ---------- requirement lists mean what the selector means ---------- *)
Definition creq_holds (l : labels) (c : creq) : bool :=
  match cr_op c with
  | CEq => match cr_vals c, lookup (cr_key c) l with
           | [v], Some x => String.eqb x v
           | _, _ => false
           end
  | CIn => match lookup (cr_key c) l with Some x => str_mem x (cr_vals c) | None => false end
  | CNotIn => match lookup (cr_key c) l with Some x => negb (str_mem x (cr_vals c)) | None => true end
  | CExists => match lookup (cr_key c) l with Some _ => true | None => false end
  | CNotExists => match lookup (cr_key c) l with Some _ => false | None => true end
  end.

Lemma str_mem_insert x y l : str_mem x (str_insert y l) = String.eqb x y || str_mem x l.
Proof.
  induction l as [|z t IH]; cbn [str_insert str_mem]; [reflexivity|].
  destruct (String.leb y z); cbn [str_mem]; [reflexivity|]. rewrite IH.
  destruct (String.eqb x y), (String.eqb x z); reflexivity.
Qed.
Lemma str_mem_sort x l : str_mem x (str_sort l) = str_mem x l.
Proof.
  induction l as [|y t IH]; cbn [str_sort fold_right str_mem]; [reflexivity|].
  change (fold_right str_insert [] t) with (str_sort t). rewrite str_mem_insert, IH. reflexivity.
Qed.

Lemma creq_of_req_holds r l : creq_holds l (creq_of_req r) = req_matches r l.
Proof.
  unfold creq_of_req, req_matches, creq_holds. destruct (r_op r); cbn [cr_op cr_key cr_vals].
  - destruct (r_vals r) as [|v [|v2 t]]; cbn [cr_op cr_key cr_vals];
      destruct (lookup (r_key r) l) as [x|]; try reflexivity.
    + cbn [str_mem]. rewrite orb_false_r. reflexivity.
    + apply str_mem_sort.
  - destruct (lookup (r_key r) l) as [x|]; [|reflexivity]. rewrite str_mem_sort. reflexivity.
  - reflexivity.
  - reflexivity.
Qed.

Lemma forallb_creq_insert f x l : forallb f (creq_insert x l) = f x && forallb f l.
Proof.
  induction l as [|y t IH]; cbn [creq_insert forallb]; [reflexivity|].
  destruct (String.ltb (cr_key x) (cr_key y)); cbn [forallb]; [reflexivity|].
  rewrite IH. destruct (f x), (f y); reflexivity.
Qed.
Lemma forallb_fold_insert f L : forall acc,
  forallb f (fold_left (fun a x => creq_insert x a) L acc) = forallb f L && forallb f acc.
Proof.
  induction L as [|x t IH]; intros acc; cbn [fold_left forallb]; [reflexivity|].
  rewrite IH, forallb_creq_insert. destruct (f x), (forallb f t), (forallb f acc); reflexivity.
Qed.

Lemma sel_canon_holds s l : forallb (creq_holds l) (sel_canon s) = sel_matches_raw s l.
Proof.
  unfold sel_canon, sel_matches_raw. rewrite forallb_fold_insert. cbn [forallb]. rewrite andb_true_r.
  rewrite forallb_app. f_equal.
  - induction (s_match s) as [|[k v] t IH]; cbn [map forallb]; [reflexivity|]. rewrite IH. f_equal.
  - induction (s_exprs s) as [|r t IH]; cbn [map forallb]; [reflexivity|]. rewrite IH, creq_of_req_holds. reflexivity.
Qed.

Lemma strs_eqb_eq a : forall b, strs_eqb a b = true -> a = b.
Proof.
  induction a as [|x t IH]; intros [|y u] H; cbn [strs_eqb] in H; try discriminate; [reflexivity|].
  apply andb_true_iff in H. destruct H as [H1 H2]. apply String.eqb_eq in H1. subst y. f_equal. apply IH. exact H2.
Qed.
Lemma creq_eqb_eq a b : creq_eqb a b = true -> a = b.
Proof.
  unfold creq_eqb. intros H. apply andb_true_iff in H. destruct H as [H H3]. apply andb_true_iff in H. destruct H as [H1 H2].
  apply String.eqb_eq in H1. apply strs_eqb_eq in H3. destruct a as [ka oa va], b as [kb ob vb]. cbn in *. subst.
  destruct oa, ob; try discriminate H2; reflexivity.
Qed.
Lemma creqs_eqb_eq a : forall b, creqs_eqb a b = true -> a = b.
Proof.
  induction a as [|x t IH]; intros [|y u] H; cbn [creqs_eqb] in H; try discriminate; [reflexivity|].
  apply andb_true_iff in H. destruct H as [H1 H2]. apply creq_eqb_eq in H1. subst y. f_equal. apply IH. exact H2.
Qed.
Lemma strs_eqb_refl a : strs_eqb a a = true.
Proof. induction a as [|x t IH]; cbn [strs_eqb]; [reflexivity|]. rewrite String.eqb_refl. exact IH. Qed.
Lemma creqs_eqb_refl a : creqs_eqb a a = true.
Proof.
  induction a as [|x t IH]; cbn [creqs_eqb]; [reflexivity|]. rewrite IH, andb_true_r.
  unfold creq_eqb. rewrite String.eqb_refl, strs_eqb_refl. destruct (cr_op x); reflexivity.
Qed.

(* the meaning of a representative peer: selectors with equal requirement lists select the same label sets *)
Theorem same_requirements_same_meaning a b l :
  creqs_eqb (sel_canon a) (sel_canon b) = true -> sel_matches_raw a l = sel_matches_raw b l.
Proof. intros H. apply creqs_eqb_eq in H. rewrite <- !sel_canon_holds, H. reflexivity. Qed.

(* SelectorsFullMatch: the rule's selector accepts every label set the representative's selector accepts *)
Lemma full_match_sound s rep l :
  full_match s rep = Ok true -> s_opt_sel rep l true = true -> sel_matches_raw s l = true.
Proof.
  unfold full_match. intros H Hl. destruct (sel_valid s); cbn [negb] in H; [|discriminate H].
  destruct (sel_empty s) eqn:Ee; [apply sel_empty_raw; exact Ee|].
  destruct rep as [r|]; [|discriminate H]. destruct (sel_valid r); [|discriminate H].
  assert (H1 : creqs_eqb (sel_canon s) (sel_canon r) = true) by (injection H as H0; exact H0).
  cbn [s_opt_sel] in Hl. rewrite (same_requirements_same_meaning s r l H1). exact Hl.
Qed.

(* ---------- a hypothetical pod that a representative peer stands for ---------- *)
(* its namespace labels carry the automatic name label of its namespace (Kubernetes sets it; Build.ns_with_name_label) *)
Definition satisfies (hp : pod) (hnsl : labels) (r : rep) : Prop :=
  sel_matches_raw (rp_nssel r) hnsl = true /\ s_opt_sel (rp_podsel r) (p_labels hp) true = true /\
  lookup K8sNsNameLabelKey hnsl = Some (p_ns hp).

Lemma name_sel_matches ns l : sel_matches_raw (name_sel ns) l = true -> lookup K8sNsNameLabelKey l = Some ns.
Proof.
  unfold name_sel, sel_matches_raw. cbn [s_match s_exprs forallb fst snd]. rewrite !andb_true_r.
  destruct (lookup K8sNsNameLabelKey l) as [v|]; [|discriminate]. intros H. apply String.eqb_eq in H. subst v. reflexivity.
Qed.

Lemma peers_select_rep_sound npns peers r hp hnsl :
  satisfies hp hnsl r -> peers_select_rep npns peers r = Ok true ->
  existsb (fun pr => s_np_peer_matches npns pr (PPod hp hnsl)) peers = true.
Proof.
  intros (Hns & Hpod & Hname). induction peers as [|pr t IH]; intros H; cbn [peers_select_rep] in H; [discriminate H|].
  cbn [existsb]. destruct pr as [nss pods | cidr exc | | | ]; try discriminate H.
  - set (fm := match nss with
               | None => full_match (name_sel npns) (Some (rp_nssel r))
               | Some s => full_match s (Some (rp_nssel r))
               end) in *.
    destruct fm as [nsm|e] eqn:Efm; cbn [bind] in H; [|discriminate H].
    destruct nsm; cbn [negb] in H.
    + set (pm := match pods with None => Ok true | Some s => full_match s (rp_podsel r) end) in *.
      destruct pm as [b|e] eqn:Epm; cbn [bind] in H; [|discriminate H].
      destruct b.
      * apply orb_true_iff. left. cbn [s_np_peer_matches]. apply andb_true_iff. split.
        -- destruct nss as [s|]; cbn [s_opt_sel]; unfold fm in Efm.
           ++ apply (full_match_sound s (Some (rp_nssel r)) hnsl Efm). exact Hns.
           ++ pose proof (full_match_sound (name_sel npns) (Some (rp_nssel r)) hnsl Efm Hns) as Hm.
              apply name_sel_matches in Hm. rewrite Hname in Hm. injection Hm as Hm. rewrite Hm. apply String.eqb_refl.
        -- destruct pods as [s|]; cbn [s_opt_sel]; unfold pm in Epm; [|reflexivity].
           apply (full_match_sound s (rp_podsel r) (p_labels hp) Epm). exact Hpod.
      * apply orb_true_iff. right. apply IH. exact H.
    + apply orb_true_iff. right. apply IH. exact H.
  - apply orb_true_iff. right. apply IH. exact H.
  - apply orb_true_iff. right. apply IH. exact H.
Qed.

Lemma rule_selects_rep_sound npns peers r hp hnsl :
  satisfies hp hnsl r -> rule_selects_rep npns peers r = Ok true ->
  s_np_rule_peers npns peers (PPod hp hnsl) = true.
Proof.
  intros Hs H. unfold rule_selects_rep in H. unfold s_np_rule_peers. destruct peers as [|pr t]; [reflexivity|].
  apply (peers_select_rep_sound npns (pr :: t) r hp hnsl Hs H).
Qed.

(* ---------- ports without a destination: the numbered part ---------- *)
Definition num_port_matches (pp : np_port) (pr : proto) (n : Z) : bool :=
  proto_eqb (pp_proto pp) pr &&
  match pp_port pp with
  | PAll => true
  | PNum a => (a <=? n) && (n <=? match pp_end pp with Some e => e | None => a end)
  | PName _ => false
  end.
Definition num_rule_ports (ports : list np_port) (pr : proto) (n : Z) : bool :=
  match ports with [] => true | _ => existsb (fun pp => num_port_matches pp pr n) ports end.

Lemma num_port_matches_any pp dst pr n : num_port_matches pp pr n = true -> s_np_port_matches pp dst pr n = true.
Proof.
  unfold num_port_matches, s_np_port_matches. intros H. apply andb_true_iff in H. destruct H as [H1 H2]. rewrite H1. cbn [andb].
  destruct (pp_port pp); [reflexivity|exact H2|discriminate H2].
Qed.
Lemma num_rule_ports_any ports dst pr n : num_rule_ports ports pr n = true -> s_np_rule_ports ports dst pr n = true.
Proof.
  unfold num_rule_ports, s_np_rule_ports. destruct ports as [|pp t]; [reflexivity|]. intros H.
  apply existsb_exists in H. destruct H as (x & Hin & Hx). apply existsb_exists. exists x. split; [exact Hin|].
  apply num_port_matches_any. exact Hx.
Qed.

Lemma ps_add_named_wf nm : ps_wf (ps_add_named (ps_make false) nm).
Proof. unfold ps_add_named, ps_wf. cbn [ps_ports]. apply ps_make_wf. Qed.

Lemma ports_nodst_ok ports : forall res,
  cs_wf res -> forallb np_port_okb ports = true ->
  cs_wf (ports_conns_nodst ports res) /\
  forall pr n, cs_denote (ports_conns_nodst ports res) pr n
               = cs_denote res pr n || (valid_port n && existsb (fun pp => num_port_matches pp pr n) ports).
Proof.
  induction ports as [|pp t IH]; intros res Hres Hok; cbn [ports_conns_nodst].
  - split; [exact Hres|]. intros pr n. cbn [existsb]. rewrite andb_false_r, orb_false_r. reflexivity.
  - cbn [forallb] in Hok. apply andb_true_iff in Hok. destruct Hok as [Hpp Ht].
    set (ps := match pp_port pp with
               | PAll => ps_make true
               | PName nm => ps_add_named (ps_make false) nm
               | PNum n => ps_add_range (ps_make false) n (match pp_end pp with Some e => e | None => n end)
               end).
    assert (Hps : ps_wf ps /\ forall pr n, proto_eqb (pp_proto pp) pr && imem n (ps_ports ps) = valid_port n && num_port_matches pp pr n).
    { unfold ps, num_port_matches. unfold np_port_okb in Hpp. destruct (pp_port pp) as [|a|nm].
      - split; [apply ps_make_wf|]. intros pr n. rewrite ps_full_mem. destruct (proto_eqb (pp_proto pp) pr), (valid_port n); reflexivity.
      - split; [apply range_ok_wf; exact Hpp|]. intros pr n. rewrite range_mem.
        destruct (proto_eqb (pp_proto pp) pr); cbn [andb]; [|rewrite andb_false_r; reflexivity].
        destruct ((a <=? n) && (n <=? match pp_end pp with Some e => e | None => a end)) eqn:Hin.
        + rewrite (range_ok_valid _ _ n Hpp Hin). reflexivity.
        + rewrite andb_false_r. reflexivity.
      - split; [apply ps_add_named_wf|]. intros pr n. cbn [ps_add_named ps_make ps_ports imem]. rewrite !andb_false_r. reflexivity. }
    destruct Hps as [Hwf Hmem].
    destruct (IH (cs_addconn res (pp_proto pp) ps) (cs_addconn_wf _ _ _ Hres Hwf) Ht) as [H1 H2].
    split; [exact H1|]. intros pr n. rewrite H2, cs_addconn_denote by assumption. cbn [existsb].
    rewrite Hmem. destruct (cs_denote res pr n), (valid_port n), (num_port_matches pp pr n); reflexivity.
Qed.

Lemma rule_conns_nodst_ok ports :
  forallb np_port_okb ports = true ->
  cs_wf (rule_conns_nodst ports) /\
  forall pr n, cs_denote (rule_conns_nodst ports) pr n = valid_port n && num_rule_ports ports pr n.
Proof.
  intros Hok. unfold rule_conns_nodst, num_rule_ports. destruct ports as [|pp t].
  - split; [apply cs_make_wf|]. intros pr n. rewrite cs_make_denote. reflexivity.
  - destruct (ports_nodst_ok (pp :: t) (cs_make false) (cs_make_wf false) Hok) as [H1 H2].
    split; [exact H1|]. intros pr n. rewrite H2, cs_make_false_denote. reflexivity.
Qed.

(* ---------- the rules of a policy against a representative peer ---------- *)
Definition rsel (npns : string) (r : rep) (rl : np_rule) : bool :=
  match rule_selects_rep npns (nr_peers rl) r with Ok b => b | Err _ => false end.
Definition pmatch (real : peer) (ingress : bool) (rl : np_rule) (pr : proto) (n : Z) : bool :=
  if ingress then s_np_rule_ports (nr_ports rl) real pr n else num_rule_ports (nr_ports rl) pr n.

Lemma rules_conns_rep_ok npns r real ingress rules : forall res c,
  peer_okb real = true -> forallb np_rule_okb rules = true -> cs_wf res ->
  rules_conns_rep npns rules r real ingress res = Ok c ->
  cs_wf c /\
  forall pr n, cs_denote c pr n
               = cs_denote res pr n || (valid_port n && existsb (fun rl => rsel npns r rl && pmatch real ingress rl pr n) rules).
Proof.
  induction rules as [|rl t IH]; intros res c Hd Hok Hres H; cbn [rules_conns_rep] in H.
  - inversion H; subst c. split; [exact Hres|]. intros pr n. cbn [existsb]. rewrite andb_false_r, orb_false_r. reflexivity.
  - cbn [forallb] in Hok. apply andb_true_iff in Hok. destruct Hok as [Hr Ht].
    unfold rsel at 1. cbn [existsb].
    destruct (rule_selects_rep npns (nr_peers rl) r) as [sel|e] eqn:Hsel; cbn [bind] in H; [|discriminate H].
    destruct sel; cbn [negb] in H.
    + set (rcq := if ingress then np_rule_conns (nr_ports rl) real else Ok (rule_conns_nodst (nr_ports rl))) in *.
      destruct rcq as [rc|e] eqn:Hrc; cbn [bind] in H; [|discriminate H].
      assert (Hrcok : cs_wf rc /\ forall pr n, cs_denote rc pr n = valid_port n && pmatch real ingress rl pr n).
      { unfold rcq in Hrc. unfold pmatch. destruct ingress.
        - destruct (np_rule_conns_ok _ _ _ Hd Hr Hrc) as [Hs Hden]. split; [apply cs_sub_wf; exact Hs|exact Hden].
        - inversion Hrc; subst rc. apply rule_conns_nodst_ok. exact Hr. }
      destruct Hrcok as [Hrcw Hrcd].
      destruct (IH _ _ Hd Ht (cs_union_wf _ _ Hres Hrcw) H) as [Hc Hden].
      split; [exact Hc|]. intros pr n. rewrite Hden, cs_union_denote by assumption. rewrite Hrcd.
      unfold rsel. cbn [andb].
      destruct (cs_denote res pr n), (valid_port n), (pmatch real ingress rl pr n); reflexivity.
    + destruct (IH _ _ Hd Ht Hres H) as [Hc Hden]. split; [exact Hc|]. intros pr n. rewrite Hden. reflexivity.
Qed.

(* ---------- the pre-scan of a policy ---------- *)
Definition no_peers (rl : np_rule) : bool := match nr_peers rl with [] => true | _ => false end.
Definition opens (rl : np_rule) : bool :=
  match nr_peers rl with
  | [] => true
  | peers => match scan_entries peers [] with None => true | Some _ => false end
  end.

Lemma scan_fold_ok rules : forall e,
  forallb np_rule_okb rules = true -> cs_wf (pe_ext e) -> cs_wf (pe_cw e) ->
  let e' := fold_left scan_rule rules e in
  cs_wf (pe_ext e') /\ cs_wf (pe_cw e') /\
  (forall pr n, cs_denote (pe_ext e') pr n
                = cs_denote (pe_ext e) pr n || (valid_port n && existsb (fun rl => no_peers rl && num_rule_ports (nr_ports rl) pr n) rules)) /\
  (forall pr n, cs_denote (pe_cw e') pr n
                = cs_denote (pe_cw e) pr n || (valid_port n && existsb (fun rl => opens rl && num_rule_ports (nr_ports rl) pr n) rules)).
Proof.
  induction rules as [|rl t IH]; intros e Hok He Hc; cbn [fold_left].
  - cbn zeta. split; [exact He|]. split; [exact Hc|]. split; intros pr n; cbn [existsb]; rewrite andb_false_r, orb_false_r; reflexivity.
  - cbn [forallb] in Hok. apply andb_true_iff in Hok. destruct Hok as [Hr Ht].
    destruct (rule_conns_nodst_ok (nr_ports rl) Hr) as [Hrw Hrd].
    assert (Hstep : cs_wf (pe_ext (scan_rule e rl)) /\ cs_wf (pe_cw (scan_rule e rl)) /\
                    (forall pr n, cs_denote (pe_ext (scan_rule e rl)) pr n
                                  = cs_denote (pe_ext e) pr n || (valid_port n && (no_peers rl && num_rule_ports (nr_ports rl) pr n))) /\
                    (forall pr n, cs_denote (pe_cw (scan_rule e rl)) pr n
                                  = cs_denote (pe_cw e) pr n || (valid_port n && (opens rl && num_rule_ports (nr_ports rl) pr n)))).
    { unfold scan_rule, no_peers, opens. destruct (nr_peers rl) as [|p0 pt] eqn:Ep.
      - cbn [pe_ext pe_cw]. split; [apply cs_union_wf; assumption|]. split; [apply cs_union_wf; assumption|].
        split; intros pr n; rewrite cs_union_denote by assumption; rewrite Hrd; reflexivity.
      - destruct (scan_entries (p0 :: pt) []) as [l|]; cbn [pe_ext pe_cw andb].
        + split; [exact He|]. split; [exact Hc|]. split; intros pr n; rewrite andb_false_r, orb_false_r; reflexivity.
        + split; [exact He|]. split; [apply cs_union_wf; assumption|]. split; intros pr n.
          * rewrite andb_false_r, orb_false_r. reflexivity.
          * rewrite cs_union_denote by assumption. rewrite Hrd. reflexivity. }
    destruct Hstep as (S1 & S2 & S3 & S4).
    destruct (IH (scan_rule e rl) Ht S1 S2) as (I1 & I2 & I3 & I4). cbn zeta in *.
    split; [exact I1|]. split; [exact I2|]. split; intros pr n; cbn [existsb].
    + rewrite I3, S3. destruct (cs_denote (pe_ext e) pr n), (valid_port n), (no_peers rl && num_rule_ports (nr_ports rl) pr n); reflexivity.
    + rewrite I4, S4. destruct (cs_denote (pe_cw e) pr n), (valid_port n), (opens rl && num_rule_ports (nr_ports rl) pr n); reflexivity.
Qed.

Definition dir_rules (np : netpol) (ingress : bool) : list np_rule := if ingress then np_in np else np_eg np.
Definition dir_of (ingress : bool) : dir := if ingress then Ingress else Egress.

Lemma scan_dir_ok np ingress :
  netpol_okb np = true ->
  let e := scan_dir np (dir_of ingress) in
  cs_wf (pe_ext e) /\ cs_wf (pe_cw e) /\
  (forall pr n, cs_denote (pe_ext e) pr n = true ->
                np_affects np (dir_of ingress) = true /\
                existsb (fun rl => no_peers rl && num_rule_ports (nr_ports rl) pr n) (dir_rules np ingress) = true) /\
  (forall pr n, cs_denote (pe_cw e) pr n = true ->
                np_affects np (dir_of ingress) = true /\
                existsb (fun rl => opens rl && num_rule_ports (nr_ports rl) pr n) (dir_rules np ingress) = true).
Proof.
  intros Hok. unfold netpol_okb in Hok. apply andb_true_iff in Hok. destruct Hok as [Hin Heg].
  unfold scan_dir. destruct (np_affects np (dir_of ingress)) eqn:Ea.
  - assert (Hr : forallb np_rule_okb (dir_rules np ingress) = true) by (destruct ingress; assumption).
    replace (match dir_of ingress with Ingress => np_in np | Egress => np_eg np end) with (dir_rules np ingress)
      by (destruct ingress; reflexivity).
    destruct (scan_fold_ok (dir_rules np ingress) pol_exp0 Hr (cs_make_wf false) (cs_make_wf false)) as (I1 & I2 & I3 & I4).
    cbn zeta in *. split; [exact I1|]. split; [exact I2|]. split; intros pr n H.
    + rewrite I3 in H. cbn [pol_exp0 pe_ext] in H. rewrite cs_make_false_denote in H. cbn [orb] in H.
      apply andb_true_iff in H. split; [reflexivity|apply H].
    + rewrite I4 in H. cbn [pol_exp0 pe_cw] in H. rewrite cs_make_false_denote in H. cbn [orb] in H.
      apply andb_true_iff in H. split; [reflexivity|apply H].
  - cbn zeta. cbn [pol_exp0 pe_ext pe_cw]. split; [apply cs_make_wf|]. split; [apply cs_make_wf|].
    split; intros pr n H; rewrite cs_make_false_denote in H; discriminate H.
Qed.

(* an entry that opens the whole cluster matches every pod *)
Lemma scan_entries_none npns peers x : forall acc,
  scan_entries peers acc = None -> peer_is_ip x = false ->
  existsb (fun pr => s_np_peer_matches npns pr x) peers = true.
Proof.
  induction peers as [|pr t IH]; intros acc H Hx; cbn [scan_entries] in H; [discriminate H|].
  cbn [existsb]. destruct pr as [nss pods | cidr exc | | | ]; cbn [entry_selectors] in H.
  - destruct (opens_cluster nss pods) eqn:Eo.
    + apply orb_true_iff. left. destruct x as [p nsl | b]; [|discriminate Hx]. cbn [s_np_peer_matches].
      unfold opens_cluster in Eo. destruct nss as [s|]; [|discriminate Eo]. apply andb_true_iff in Eo. destruct Eo as [E1 E2].
      cbn [s_opt_sel]. rewrite (sel_empty_raw s nsl E1). cbn [andb].
      destruct pods as [ps|]; cbn [s_opt_sel]; [apply sel_empty_raw; exact E2|reflexivity].
    + apply orb_true_iff. right. apply (IH _ H Hx).
  - apply orb_true_iff. right. apply (IH _ H Hx).
  - apply orb_true_iff. right. apply (IH _ H Hx).
  - apply orb_true_iff. right. apply (IH _ H Hx).
  - apply orb_true_iff. right. apply (IH _ H Hx).
Qed.

Lemma opens_matches npns rl x : opens rl = true -> peer_is_ip x = false -> s_np_rule_peers npns (nr_peers rl) x = true.
Proof.
  unfold opens, s_np_rule_peers. destruct (nr_peers rl) as [|p0 pt]; [reflexivity|]. intros H Hx.
  destruct (scan_entries (p0 :: pt) []) as [l|] eqn:E; [discriminate H|].
  apply (scan_entries_none npns (p0 :: pt) x [] E Hx).
Qed.
Lemma no_peers_matches npns rl x : no_peers rl = true -> s_np_rule_peers npns (nr_peers rl) x = true.
Proof. unfold no_peers, s_np_rule_peers. destruct (nr_peers rl); [reflexivity|discriminate]. Qed.

Lemma existsb_impl {A} (f g : A -> bool) l :
  (forall x, In x l -> f x = true -> g x = true) -> existsb f l = true -> existsb g l = true.
Proof.
  intros H E. apply existsb_exists in E. destruct E as (x & Hin & Hx). apply existsb_exists. exists x. split; [exact Hin|].
  apply H; assumption.
Qed.

(* the two ends of the connection between a real workload and a hypothetical pod *)
Definition x_src (real X : peer) (ingress : bool) : peer := if ingress then X else real.
Definition x_dst (real X : peer) (ingress : bool) : peer := if ingress then real else X.

Lemma policy_conns_rep_sound np r real ingress c hp hnsl :
  netpol_okb np = true -> peer_okb real = true -> satisfies hp hnsl r ->
  policy_conns_rep np r real ingress = Ok c ->
  cs_wf c /\
  forall pr n, cs_denote c pr n = true ->
               s_np_policy_allows np (x_src real (PPod hp hnsl) ingress) (x_dst real (PPod hp hnsl) ingress) ingress pr n = true.
Proof.
  intros Hok Hd Hsat H. unfold policy_conns_rep in H.
  change (if ingress then Ingress else Egress) with (dir_of ingress) in H.
  destruct (scan_dir_ok np ingress Hok) as (W1 & W2 & S1 & S2). cbn zeta in *.
  set (X := PPod hp hnsl).
  assert (Hports : forall rl pr n, num_rule_ports (nr_ports rl) pr n = true ->
                                   s_np_rule_ports (nr_ports rl) (x_dst real X ingress) pr n = true)
    by (intros; apply num_rule_ports_any; assumption).
  assert (Hother : (if ingress then x_src real X ingress else x_dst real X ingress) = X) by (destruct ingress; reflexivity).
  unfold s_np_policy_allows. rewrite Hother.
  change (if ingress then np_in np else np_eg np) with (dir_rules np ingress) in *.
  destruct (cs_all (pe_ext (scan_dir np (dir_of ingress)))) eqn:Eext.
  - inversion H; subst c. split; [exact W1|]. intros pr n Hden. destruct (S1 pr n Hden) as [_ Hex].
    revert Hex. apply existsb_impl. intros rl _ Hrl. apply andb_true_iff in Hrl. destruct Hrl as [R1 R2].
    unfold s_np_rule. rewrite (no_peers_matches (np_ns np) rl X R1). cbn [andb]. apply Hports. exact R2.
  - destruct (cs_all (pe_cw (scan_dir np (dir_of ingress)))) eqn:Ecw.
    + inversion H; subst c. split; [exact W2|]. intros pr n Hden. destruct (S2 pr n Hden) as [_ Hex].
      revert Hex. apply existsb_impl. intros rl _ Hrl. apply andb_true_iff in Hrl. destruct Hrl as [R1 R2].
      unfold s_np_rule. rewrite (opens_matches (np_ns np) rl X R1 eq_refl). cbn [andb]. apply Hports. exact R2.
    + assert (Hr : forallb np_rule_okb (dir_rules np ingress) = true).
      { unfold netpol_okb in Hok. apply andb_true_iff in Hok. destruct ingress; apply Hok. }
      destruct (rules_conns_rep_ok (np_ns np) r real ingress (dir_rules np ingress) _ _ Hd Hr (cs_make_wf false) H) as [Hc Hden].
      split; [exact Hc|]. intros pr n Hd'. rewrite Hden, cs_make_false_denote in Hd'. cbn [orb] in Hd'.
      apply andb_true_iff in Hd'. destruct Hd' as [_ Hex]. revert Hex. apply existsb_impl.
      intros rl _ Hrl. apply andb_true_iff in Hrl. destruct Hrl as [R1 R2].
      unfold rsel in R1. destruct (rule_selects_rep (np_ns np) (nr_peers rl) r) as [b|e] eqn:Esel; [|discriminate R1]. subst b.
      unfold s_np_rule. unfold X. rewrite (rule_selects_rep_sound _ _ _ _ _ Hsat Esel). cbn [andb].
      fold X. unfold pmatch in R2. destruct ingress; [exact R2|apply Hports; exact R2].
Qed.

Lemma nps_union_rep_sound sel r real ingress hp hnsl : forall acc c,
  forallb netpol_okb sel = true -> peer_okb real = true -> satisfies hp hnsl r -> cs_wf acc ->
  nps_union_rep sel r real ingress acc = Ok c ->
  cs_wf c /\
  forall pr n, cs_denote c pr n = true ->
               cs_denote acc pr n = true \/
               existsb (fun np => s_np_policy_allows np (x_src real (PPod hp hnsl) ingress) (x_dst real (PPod hp hnsl) ingress) ingress pr n) sel = true.
Proof.
  induction sel as [|np t IH]; intros acc c Hok Hd Hsat Hacc H; cbn [nps_union_rep] in H.
  - inversion H; subst c. split; [exact Hacc|]. intros pr n Hden. left. exact Hden.
  - cbn [forallb] in Hok. apply andb_true_iff in Hok. destruct Hok as [Hnp Ht].
    destruct (policy_conns_rep np r real ingress) as [pc|e] eqn:Epc; cbn [bind] in H; [|discriminate H].
    destruct (policy_conns_rep_sound np r real ingress pc hp hnsl Hnp Hd Hsat Epc) as [Hpcw Hpcs].
    destruct (IH _ _ Ht Hd Hsat (cs_union_wf _ _ Hacc Hpcw) H) as [Hc Hs].
    split; [exact Hc|]. intros pr n Hden. cbn [existsb]. destruct (Hs pr n Hden) as [Hu|Hex].
    + rewrite cs_union_denote in Hu by assumption. apply orb_true_iff in Hu. destruct Hu as [Hu|Hu].
      * left. exact Hu.
      * right. rewrite (Hpcs pr n Hu). reflexivity.
    + right. rewrite Hex. apply orb_true_r.
Qed.

(* ---------- soundness of a per-selector entry (C06) ---------- *)
Theorem rep_conns_sound w p nsl r ingress c hp hnsl :
  forallb netpol_okb (w_nps w) = true -> pod_okb p = true -> satisfies hp hnsl r ->
  conns_with_rep w p nsl r ingress = Ok c ->
  forall pr n, cs_denote c pr n = true ->
    match s_np_layer w (x_src (PPod p nsl) (PPod hp hnsl) ingress) (x_dst (PPod p nsl) (PPod hp hnsl) ingress) ingress pr n with
    | Some b => b = true
    | None => True
    end.
Proof.
  intros Hok Hp Hsat H pr n Hden. unfold conns_with_rep in H.
  change (if ingress then Ingress else Egress) with (dir_of ingress) in H.
  destruct (selecting_nps (w_nps w) p (dir_of ingress)) as [sel|e] eqn:Hs; cbn [bind] in H; [|discriminate H].
  apply selecting_nps_ok in Hs. unfold s_np_layer.
  replace (if ingress then x_dst (PPod p nsl) (PPod hp hnsl) ingress else x_src (PPod p nsl) (PPod hp hnsl) ingress)
    with (PPod p nsl) by (destruct ingress; reflexivity).
  change (if ingress then Ingress else Egress) with (dir_of ingress). rewrite <- Hs.
  destruct sel as [|np t]; [exact I|].
  destruct (nps_union_rep (np :: t) r (PPod p nsl) ingress (cs_make false)) as [c'|e] eqn:Hc; cbn [bind] in H; [|discriminate H].
  assert (Hok' : forallb netpol_okb (np :: t) = true) by (rewrite Hs; apply forallb_filter; exact Hok).
  destruct (nps_union_rep_sound (np :: t) r (PPod p nsl) ingress hp hnsl _ _ Hok' Hp Hsat (cs_make_wf false) Hc) as [Hcw Hcs].
  assert (Hden' : cs_denote c' pr n = true).
  { inversion H; subst c. destruct ingress.
    - rewrite cs_inter_denote in Hden; [|apply cs_make_wf|exact Hcw|intros _ q; apply cs_get_make].
      apply andb_true_iff in Hden. apply Hden.
    - exact Hden. }
  destruct (Hcs pr n Hden') as [Hf|Hex]; [rewrite cs_make_false_denote in Hf; discriminate Hf|exact Hex].
Qed.

(* ---------- named ports of an ingress entire-cluster connection are the workload's own ports ---------- *)
Definition resolves (p : pod) (q : proto) (nm : string) (n : Z) : bool :=
  match pod_named_port (p_ports p) nm with
  | Some (pr', m) => proto_eqb pr' q && negb (m =? NoPort) && (m =? n)
  | None => false
  end.

Lemma ps_add_num_wf ps m : ps_wf ps -> valid_port m = true -> ps_wf (ps_add_num ps m).
Proof.
  intros H Hv. change (ps_add_num ps m) with (ps_add_range ps m m). apply valid_port_iff in Hv.
  apply ps_add_range_wf; [exact H|lia|lia].
Qed.
Lemma ps_add_num_mem ps m n : ps_wf ps -> imem n (ps_ports (ps_add_num ps m)) = imem n (ps_ports ps) || (m =? n).
Proof.
  intros H. change (ps_add_num ps m) with (ps_add_range ps m m). rewrite ps_add_range_ports by exact H.
  unfold in_ivl. cbn [fst snd]. destruct (imem n (ps_ports ps)); cbn [orb]; [reflexivity|lia].
Qed.

Lemma pod_named_port_valid' p nm q m : pod_okb p = true -> pod_named_port (p_ports p) nm = Some (q, m) -> valid_port m = true.
Proof.
  unfold pod_okb. induction (p_ports p) as [|c t IH]; intros Hok H; cbn [pod_named_port] in H; [discriminate H|].
  cbn [forallb] in Hok. apply andb_true_iff in Hok. destruct Hok as [Hc Ht].
  destruct (String.eqb nm (cp_name c)); [inversion H; subst; exact Hc|apply IH; assumption].
Qed.

(* one step of the conversion *)
Definition conv_step (p : pod) (q : proto) (acc : connset) (nm : string) : connset :=
  match pod_named_port (p_ports p) nm with
  | Some (pr, n) => if proto_eqb pr q && negb (n =? NoPort)
                    then cs_replace_named acc q nm n
                    else cs_replace_named acc q nm NoPort
  | None => cs_replace_named acc q nm NoPort
  end.

Lemma conv_step_ok p q acc nm :
  pod_okb p = true -> cs_wf acc -> (exists ps, cs_get acc q = Some ps) ->
  cs_wf (conv_step p q acc nm) /\ (exists ps, cs_get (conv_step p q acc nm) q = Some ps) /\
  cs_all (conv_step p q acc nm) = cs_all acc /\
  (forall q', q' <> q -> cs_get (conv_step p q acc nm) q' = cs_get acc q') /\
  forall pr n, cs_denote (conv_step p q acc nm) pr n
               = cs_denote acc pr n || (valid_port n && negb (cs_all acc) && proto_eqb q pr && resolves p q nm n).
Proof.
  intros Hp Hw [ps Eps].
  assert (Hgen : forall m, (m = NoPort \/ valid_port m = true) ->
            cs_wf (cs_replace_named acc q nm m) /\ (exists ps', cs_get (cs_replace_named acc q nm m) q = Some ps') /\
            cs_all (cs_replace_named acc q nm m) = cs_all acc /\
            (forall q', q' <> q -> cs_get (cs_replace_named acc q nm m) q' = cs_get acc q') /\
            forall pr n, cs_denote (cs_replace_named acc q nm m) pr n
                         = cs_denote acc pr n || (valid_port n && negb (cs_all acc) && proto_eqb q pr && negb (m =? NoPort) && (m =? n))).
  { intros m Hm. unfold cs_replace_named. rewrite Eps.
    set (ps1 := if m =? NoPort then ps else ps_add_num ps m).
    assert (Hps1 : ps_wf ps1 /\ forall n, imem n (ps_ports ps1) = imem n (ps_ports ps) || (negb (m =? NoPort) && (m =? n))).
    { unfold ps1. destruct (m =? NoPort) eqn:Em.
      - split; [exact (Hw q ps Eps)|]. intros n. cbn [negb andb]. rewrite orb_false_r. reflexivity.
      - destruct Hm as [Hm|Hm]; [rewrite Hm in Em; discriminate Em|].
        split; [apply ps_add_num_wf; [exact (Hw q ps Eps)|exact Hm]|]. intros n. rewrite ps_add_num_mem by exact (Hw q ps Eps). reflexivity. }
    destruct Hps1 as [Hw1 Hm1].
    split; [|split; [|split; [|split]]].
    - intros q' x Hx. rewrite cs_get_set in Hx. destruct (proto_eqb q q') eqn:Eq.
      + inversion Hx; subst x. unfold ps_drop_named, ps_wf. cbn [ps_ports]. exact Hw1.
      + exact (Hw q' x Hx).
    - eexists. rewrite cs_get_set. replace (proto_eqb q q) with true by (destruct q; reflexivity). reflexivity.
    - apply cs_all_set.
    - intros q' Hne. rewrite cs_get_set. destruct (proto_eqb q q') eqn:Eq; [apply proto_eqb_eq in Eq; congruence|reflexivity].
    - intros pr n. rewrite !cs_denote_eq, cs_all_set, cs_get_set.
      destruct (proto_eqb q pr) eqn:Eq.
      + apply proto_eqb_eq in Eq. subst pr. rewrite Eps. cbn [opt_mem ps_drop_named ps_ports]. rewrite Hm1.
        destruct (valid_port n), (cs_all acc), (imem n (ps_ports ps)), (negb (m =? NoPort)), (m =? n); reflexivity.
      + rewrite !andb_false_r, orb_false_r. reflexivity. }
  unfold conv_step, resolves.
  destruct (pod_named_port (p_ports p) nm) as [[pr' m]|] eqn:Enp.
  - destruct (proto_eqb pr' q && negb (m =? NoPort)) eqn:Ec.
    + destruct (Hgen m (or_intror (pod_named_port_valid' p nm pr' m Hp Enp))) as (G1 & G2 & G3 & G4 & G5).
      split; [exact G1|]. split; [exact G2|]. split; [exact G3|]. split; [exact G4|]. intros pr n. rewrite G5.
      apply andb_true_iff in Ec. destruct Ec as [E1 E2]. rewrite E2. cbn [andb].
      destruct (cs_denote acc pr n), (valid_port n), (negb (cs_all acc)), (proto_eqb q pr), (m =? n); reflexivity.
    + destruct (Hgen NoPort (or_introl eq_refl)) as (G1 & G2 & G3 & G4 & G5).
      split; [exact G1|]. split; [exact G2|]. split; [exact G3|]. split; [exact G4|]. intros pr n. rewrite G5.
      cbn [Z.eqb NoPort negb andb]. rewrite !andb_false_r. reflexivity.
  - destruct (Hgen NoPort (or_introl eq_refl)) as (G1 & G2 & G3 & G4 & G5).
    split; [exact G1|]. split; [exact G2|]. split; [exact G3|]. split; [exact G4|]. intros pr n. rewrite G5.
    cbn [Z.eqb NoPort negb andb]. rewrite !andb_false_r. reflexivity.
Qed.

Lemma conv_names_ok p q names : forall acc,
  pod_okb p = true -> cs_wf acc -> (exists ps, cs_get acc q = Some ps) ->
  let r := fold_left (conv_step p q) names acc in
  cs_wf r /\ (exists ps, cs_get r q = Some ps) /\ cs_all r = cs_all acc /\
  (forall q', q' <> q -> cs_get r q' = cs_get acc q') /\
  forall pr n, cs_denote r pr n
               = cs_denote acc pr n || (valid_port n && negb (cs_all acc) && proto_eqb q pr && existsb (fun nm => resolves p q nm n) names).
Proof.
  induction names as [|nm t IH]; intros acc Hp Hw Hq; cbn [fold_left]; cbn zeta.
  - split; [exact Hw|]. split; [exact Hq|]. split; [reflexivity|]. split; [reflexivity|].
    intros pr n. cbn [existsb]. rewrite !andb_false_r, orb_false_r. reflexivity.
  - destruct (conv_step_ok p q acc nm Hp Hw Hq) as (S1 & S2 & S3 & S4 & S5).
    destruct (IH _ Hp S1 S2) as (I1 & I2 & I3 & I4 & I5). cbn zeta in *.
    split; [exact I1|]. split; [exact I2|]. split; [rewrite I3; exact S3|]. split.
    + intros q' Hne. rewrite (I4 q' Hne). apply S4. exact Hne.
    + intros pr n. rewrite I5, S5, S3. cbn [existsb].
      destruct (cs_denote acc pr n), (valid_port n), (negb (cs_all acc)), (proto_eqb q pr), (resolves p q nm n); reflexivity.
Qed.

Definition conv_all (p : pod) (l : list (proto * list string)) (c : connset) : connset :=
  fold_left (fun acc pn => fold_left (conv_step p (fst pn)) (snd pn) acc) l c.

Lemma conv_all_ok p l : forall acc,
  pod_okb p = true -> cs_wf acc -> NoDup (map fst l) ->
  (forall pn, In pn l -> exists ps, cs_get acc (fst pn) = Some ps) ->
  cs_wf (conv_all p l acc) /\
  forall pr n, cs_denote (conv_all p l acc) pr n
               = cs_denote acc pr n
                 || (valid_port n && negb (cs_all acc)
                     && existsb (fun pn => proto_eqb (fst pn) pr && existsb (fun nm => resolves p (fst pn) nm n) (snd pn)) l).
Proof.
  induction l as [|[q names] t IH]; intros acc Hp Hw Hnd Hget; unfold conv_all; cbn [fold_left].
  - split; [exact Hw|]. intros pr n. cbn [existsb]. rewrite !andb_false_r, orb_false_r. reflexivity.
  - cbn [map fst snd] in *. inversion Hnd as [|x xs Hnotin Hnd']; subst.
    destruct (conv_names_ok p q names acc Hp Hw (Hget (q, names) (or_introl eq_refl))) as (S1 & S2 & S3 & S4 & S5).
    cbn zeta in *.
    assert (Hget' : forall pn, In pn t -> exists ps, cs_get (fold_left (conv_step p q) names acc) (fst pn) = Some ps).
    { intros pn Hin. assert (Hne : fst pn <> q).
      { intros E. apply Hnotin. rewrite <- E. apply in_map. exact Hin. }
      rewrite (S4 _ Hne). apply Hget. right. exact Hin. }
    destruct (IH _ Hp S1 Hnd' Hget') as [I1 I2]. fold (conv_all p t (fold_left (conv_step p q) names acc)).
    split; [exact I1|]. intros pr n. rewrite I2, S5, S3. cbn [existsb fst snd].
    destruct (cs_denote acc pr n), (valid_port n), (negb (cs_all acc)), (proto_eqb q pr), (existsb (fun nm => resolves p q nm n) names); reflexivity.
Qed.

Lemma cs_named_ports_props c :
  NoDup (map fst (cs_named_ports c)) /\ forall pn, In pn (cs_named_ports c) -> exists ps, cs_get c (fst pn) = Some ps.
Proof.
  unfold cs_named_ports, all_protos. cbn [flat_map].
  destruct (cs_get c TCP) as [t|] eqn:Et; destruct (cs_get c UDP) as [u|] eqn:Eu; destruct (cs_get c SCTP) as [s|] eqn:Es;
    repeat match goal with |- context [match ps_named ?x with _ => _ end] => destruct (ps_named x) end;
    cbn [app map fst]; (split; [repeat constructor; cbn [In]; intuition discriminate|]);
    intros pn Hin; cbn [In] in Hin;
    repeat (destruct Hin as [Hin|Hin]; [subst pn; cbn [fst]; eexists; eassumption|]); destruct Hin.
Qed.

Lemma drop_empty_ok c : cs_wf c -> cs_wf (drop_empty_protocols c) /\
  forall pr n, cs_denote (drop_empty_protocols c) pr n = cs_denote c pr n.
Proof.
  intros Hw. unfold drop_empty_protocols. split.
  - intros q x Hx. rewrite cs_get_map in Hx. destruct (cs_get c q) as [ps|] eqn:E; [|discriminate Hx].
    destruct (ps_isempty ps); [discriminate Hx|]. inversion Hx; subst x. exact (Hw q ps E).
  - intros pr n. rewrite !cs_denote_eq, cs_all_map, cs_get_map. destruct (cs_get c pr) as [ps|]; [|reflexivity].
    destruct (ps_isempty ps) eqn:Ee; [|reflexivity]. cbn [opt_mem]. rewrite (ps_isempty_ports ps Ee). reflexivity.
Qed.

Theorem convert_named_ok p c :
  pod_okb p = true -> cs_wf c ->
  cs_wf (convert_named p c) /\
  forall pr n, cs_denote (convert_named p c) pr n
               = cs_denote c pr n
                 || (valid_port n && negb (cs_all c)
                     && existsb (fun pn => proto_eqb (fst pn) pr && existsb (fun nm => resolves p (fst pn) nm n) (snd pn)) (cs_named_ports c)).
Proof.
  intros Hp Hw. unfold convert_named. destruct (cs_named_ports_props c) as [Hnd Hget].
  destruct (cs_named_ports c) as [|pn0 rest] eqn:En.
  - split; [exact Hw|]. intros pr n. cbn [existsb]. rewrite !andb_false_r, orb_false_r. reflexivity.
  - change (fold_left _ (pn0 :: rest) c) with (conv_all p (pn0 :: rest) c).
    destruct (conv_all_ok p (pn0 :: rest) c Hp Hw Hnd Hget) as [C1 C2].
    destruct (drop_empty_ok _ C1) as [D1 D2]. split; [exact D1|]. intros pr n. rewrite D2, C2. reflexivity.
Qed.

(* ---------- which names a connection set stores ---------- *)
Definition has_name (c : connset) (q : proto) (nm : string) : bool :=
  match cs_get c q with Some ps => sset_mem nm (ps_named ps) | None => false end.

Lemma string_compare_eq_eqb x y : String.compare x y = Eq -> String.eqb x y = true.
Proof. intros H. apply String.compare_eq_iff in H. subst y. apply String.eqb_refl. Qed.

Lemma sset_mem_add x y s : sset_mem x (sset_add y s) = String.eqb x y || sset_mem x s.
Proof.
  induction s as [|z t IH]; cbn [sset_add sset_mem]; [reflexivity|].
  destruct (String.compare y z) eqn:E; cbn [sset_mem].
  - apply string_compare_eq_eqb in E. apply String.eqb_eq in E. subst z.
    destruct (String.eqb x y); reflexivity.
  - reflexivity.
  - rewrite IH. destruct (String.eqb x y), (String.eqb x z); reflexivity.
Qed.
Lemma sset_mem_fold_add x l : forall s,
  sset_mem x (fold_left (fun acc k => sset_add k acc) l s) = sset_mem x s || str_mem x l.
Proof.
  induction l as [|y t IH]; intros s; cbn [fold_left str_mem]; [rewrite orb_false_r; reflexivity|].
  rewrite IH, sset_mem_add. destruct (String.eqb x y), (sset_mem x s), (str_mem x t); reflexivity.
Qed.
Lemma sset_mem_str_mem x s : sset_mem x s = str_mem x s.
Proof. induction s as [|y t IH]; cbn [sset_mem str_mem]; [reflexivity|]. rewrite IH. reflexivity. Qed.

Lemma ps_union_named a b nm : sset_mem nm (ps_named (ps_union a b)) = sset_mem nm (ps_named a) || sset_mem nm (ps_named b).
Proof. unfold ps_union. cbn [ps_named]. rewrite sset_mem_fold_add, (sset_mem_str_mem nm (ps_named b)). reflexivity. Qed.

Lemma has_name_addconn c p ps q nm :
  has_name (cs_addconn c p ps) q nm = has_name c q nm || (proto_eqb p q && sset_mem nm (ps_named ps)).
Proof.
  unfold cs_addconn, has_name. destruct (ps_isempty ps) eqn:Ee.
  - unfold ps_isempty in Ee. apply andb_true_iff in Ee. destruct Ee as [_ Ee].
    destruct (ps_named ps); [|discriminate Ee]. cbn [sset_mem]. rewrite andb_false_r, orb_false_r. reflexivity.
  - destruct (cs_get c p) as [mine|] eqn:E; rewrite cs_get_set; destruct (proto_eqb p q) eqn:Epq; cbn [andb].
    + apply proto_eqb_eq in Epq. subst q. rewrite E. apply ps_union_named.
    + rewrite orb_false_r. reflexivity.
    + apply proto_eqb_eq in Epq. subst q. rewrite E. reflexivity.
    + rewrite orb_false_r. reflexivity.
Qed.

Lemma has_name_make b q nm : has_name (cs_make b) q nm = false.
Proof. unfold has_name. rewrite cs_get_make. reflexivity. Qed.

Lemma has_name_union c o q nm :
  cs_all (cs_union c o) = false -> has_name (cs_union c o) q nm = has_name c q nm || has_name o q nm.
Proof.
  rewrite cs_union_eq. destruct (cs_all c) eqn:Eac; cbn [orb].
  - intros H. rewrite Eac in H. discriminate H.
  - destruct (cs_isempty o) eqn:Eeo.
    + intros _. apply cs_isempty_spec in Eeo. destruct Eeo as [_ Eno]. unfold has_name at 3. rewrite Eno, orb_false_r. reflexivity.
    + destruct (cs_all o) eqn:Eao; [intros H; discriminate H|].
      unfold cs_check_all. destruct (cs_is_all_without_allowall _); [intros H; discriminate H|].
      intros _. unfold has_name. rewrite cs_get_map.
      destruct (cs_get c q) as [a|], (cs_get o q) as [b|]; cbn [union_entry]; try reflexivity.
      * apply ps_union_named.
      * rewrite orb_false_r. reflexivity.
Qed.
Lemma has_name_union_sound c o q nm :
  has_name (cs_union c o) q nm = true -> has_name c q nm = true \/ has_name o q nm = true.
Proof.
  intros H. destruct (cs_all (cs_union c o)) eqn:Ea.
  - rewrite cs_union_eq in *. destruct (cs_all c) eqn:Eac; cbn [orb] in *; [left; exact H|].
    destruct (cs_isempty o); [left; exact H|]. destruct (cs_all o).
    + rewrite has_name_make in H. discriminate H.
    + unfold cs_check_all in *. destruct (cs_is_all_without_allowall _).
      * rewrite has_name_make in H. discriminate H.
      * rewrite cs_all_map, Eac in Ea. discriminate Ea.
  - rewrite (has_name_union c o q nm Ea) in H. apply orb_true_iff in H. exact H.
Qed.

Definition named_port_of (pp : np_port) (q : proto) (nm : string) : bool :=
  proto_eqb (pp_proto pp) q && match pp_port pp with PName x => String.eqb nm x | _ => false end.
Definition named_rule_ports (ports : list np_port) (q : proto) (nm : string) : bool :=
  existsb (fun pp => named_port_of pp q nm) ports.

Lemma has_name_ports_nodst ports q nm : forall res,
  has_name (ports_conns_nodst ports res) q nm = has_name res q nm || named_rule_ports ports q nm.
Proof.
  unfold named_rule_ports. induction ports as [|pp t IH]; intros res; cbn [ports_conns_nodst existsb]; [rewrite orb_false_r; reflexivity|].
  rewrite IH, has_name_addconn. unfold named_port_of.
  destruct (pp_port pp) as [|a|x]; cbn [ps_make ps_add_range ps_add_named ps_named sset_mem sset_add];
    rewrite ?andb_false_r, ?orb_false_r; try reflexivity.
  destruct (has_name res q nm), (proto_eqb (pp_proto pp) q), (String.eqb nm x); reflexivity.
Qed.
Lemma has_name_rule_nodst ports q nm : has_name (rule_conns_nodst ports) q nm = named_rule_ports ports q nm.
Proof.
  unfold rule_conns_nodst. destruct ports as [|pp t]; [apply has_name_make|].
  rewrite has_name_ports_nodst, has_name_make. reflexivity.
Qed.

(* a named port of a rule, resolved on a pod that declares it, is a port the rule matches *)
Lemma named_port_matches ports q nm dp dnsl n :
  named_rule_ports ports q nm = true -> pod_named_port (p_ports dp) nm = Some (q, n) ->
  s_np_rule_ports ports (PPod dp dnsl) q n = true.
Proof.
  unfold named_rule_ports, s_np_rule_ports. destruct ports as [|pp0 t]; [reflexivity|]. intros H Hd.
  revert H. apply existsb_impl. intros pp _ Hpp. unfold named_port_of in Hpp. apply andb_true_iff in Hpp. destruct Hpp as [P1 P2].
  unfold s_np_port_matches. rewrite P1. cbn [andb]. destruct (pp_port pp) as [|a|x]; try discriminate P2.
  apply String.eqb_eq in P2. subst x. rewrite Hd. apply proto_eqb_eq in P1. rewrite P1.
  replace (proto_eqb q q) with true by (destruct q; reflexivity). cbn [andb]. apply Z.eqb_refl.
Qed.

Lemma scan_fold_names rules : forall e,
  let e' := fold_left scan_rule rules e in
  (forall q nm, has_name (pe_cw e') q nm = true ->
                has_name (pe_cw e) q nm = true \/ existsb (fun rl => opens rl && named_rule_ports (nr_ports rl) q nm) rules = true) /\
  (cs_all (pe_cw e') = false ->
   cs_all (pe_cw e) = false /\
   forall q nm, has_name (pe_cw e') q nm
                = has_name (pe_cw e) q nm || existsb (fun rl => opens rl && named_rule_ports (nr_ports rl) q nm) rules).
Proof.
  induction rules as [|rl t IH]; intros e; cbn [fold_left]; cbn zeta.
  - split; [intros q nm H; left; exact H|]. intros H. split; [exact H|]. intros q nm. cbn [existsb]. rewrite orb_false_r. reflexivity.
  - destruct (IH (scan_rule e rl)) as [I1 I2]. cbn zeta in *.
    assert (Hstep : (forall q nm, has_name (pe_cw (scan_rule e rl)) q nm = true ->
                                  has_name (pe_cw e) q nm = true \/ (opens rl && named_rule_ports (nr_ports rl) q nm) = true) /\
                    (cs_all (pe_cw (scan_rule e rl)) = false ->
                     cs_all (pe_cw e) = false /\
                     forall q nm, has_name (pe_cw (scan_rule e rl)) q nm
                                  = has_name (pe_cw e) q nm || (opens rl && named_rule_ports (nr_ports rl) q nm))).
    { unfold scan_rule, opens. destruct (nr_peers rl) as [|p0 pt] eqn:Ep.
      - cbn [pe_cw andb]. split.
        + intros q nm H. apply has_name_union_sound in H. rewrite has_name_rule_nodst in H. exact H.
        + intros Ha. split.
          * destruct (cs_all (pe_cw e)) eqn:E; [|reflexivity]. rewrite cs_union_eq, E in Ha. cbn [orb] in Ha. rewrite E in Ha. discriminate Ha.
          * intros q nm. rewrite (has_name_union _ _ q nm Ha), has_name_rule_nodst. reflexivity.
      - destruct (scan_entries (p0 :: pt) []) as [l|]; cbn [pe_cw andb].
        + split; [intros q nm H; left; exact H|]. intros Ha. split; [exact Ha|]. intros q nm. rewrite orb_false_r. reflexivity.
        + split.
          * intros q nm H. apply has_name_union_sound in H. rewrite has_name_rule_nodst in H. exact H.
          * intros Ha. split.
            -- destruct (cs_all (pe_cw e)) eqn:E; [|reflexivity]. rewrite cs_union_eq, E in Ha. cbn [orb] in Ha. rewrite E in Ha. discriminate Ha.
            -- intros q nm. rewrite (has_name_union _ _ q nm Ha), has_name_rule_nodst. reflexivity. }
    destruct Hstep as [S1 S2]. split.
    + intros q nm H. cbn [existsb]. destruct (I1 q nm H) as [H1|H1].
      * destruct (S1 q nm H1) as [H2|H2]; [left; exact H2|right; rewrite H2; reflexivity].
      * right. rewrite H1. apply orb_true_r.
    + intros Ha. destruct (I2 Ha) as [Ha1 Hn1]. destruct (S2 Ha1) as [Ha0 Hn0]. split; [exact Ha0|].
      intros q nm. rewrite Hn1, Hn0. cbn [existsb]. rewrite orb_assoc. reflexivity.
Qed.

Lemma scan_dir_names np ingress q nm :
  has_name (pe_cw (scan_dir np (dir_of ingress))) q nm = true ->
  existsb (fun rl => opens rl && named_rule_ports (nr_ports rl) q nm) (dir_rules np ingress) = true.
Proof.
  unfold scan_dir. destruct (np_affects np (dir_of ingress)).
  - replace (match dir_of ingress with Ingress => np_in np | Egress => np_eg np end) with (dir_rules np ingress)
      by (destruct ingress; reflexivity).
    intros H. destruct (scan_fold_names (dir_rules np ingress) pol_exp0) as [S1 _]. cbn zeta in S1.
    destruct (S1 q nm H) as [H1|H1]; [cbn [pol_exp0 pe_cw] in H1; rewrite has_name_make in H1; discriminate H1|exact H1].
  - cbn [pol_exp0 pe_cw]. rewrite has_name_make. discriminate.
Qed.

Lemma named_ports_has_name c pn nm : In pn (cs_named_ports c) -> In nm (snd pn) -> has_name c (fst pn) nm = true.
Proof.
  unfold cs_named_ports, has_name. intros Hin Hnm. apply in_flat_map in Hin. destruct Hin as (q & _ & Hq).
  destruct (cs_get c q) as [ps|] eqn:E; [|destruct Hq]. destruct (ps_named ps) as [|n0 ns] eqn:En; [destruct Hq|].
  destruct Hq as [Hq|[]]. subst pn. cbn [fst snd] in *. rewrite E, En, sset_mem_str_mem.
  clear - Hnm. induction (n0 :: ns) as [|y t IH]; [destruct Hnm|]. cbn [str_mem]. destruct Hnm as [->|H].
  - rewrite String.eqb_refl. reflexivity.
  - rewrite (IH H). apply orb_true_r.
Qed.

(* ---------- soundness of the entire-cluster entry (C06): any pod at all ---------- *)
Lemma fold_union_ok (f : netpol -> connset) sel : forall acc,
  cs_wf acc -> (forall np, In np sel -> cs_wf (f np)) ->
  let r := fold_left (fun a np => cs_union a (f np)) sel acc in
  cs_wf r /\
  (forall pr n, cs_denote r pr n = cs_denote acc pr n || existsb (fun np => cs_denote (f np) pr n) sel) /\
  (forall q nm, has_name r q nm = true -> has_name acc q nm = true \/ existsb (fun np => has_name (f np) q nm) sel = true).
Proof.
  induction sel as [|np t IH]; intros acc Hacc Hf; cbn [fold_left]; cbn zeta.
  - split; [exact Hacc|]. split; [intros; cbn [existsb]; rewrite orb_false_r; reflexivity|]. intros q nm H. left. exact H.
  - assert (Hnp : cs_wf (f np)) by (apply Hf; left; reflexivity).
    destruct (IH (cs_union acc (f np)) (cs_union_wf _ _ Hacc Hnp) (fun x Hx => Hf x (or_intror Hx))) as (I1 & I2 & I3). cbn zeta in *.
    split; [exact I1|]. split.
    + intros pr n. rewrite I2, cs_union_denote by assumption. cbn [existsb]. rewrite orb_assoc. reflexivity.
    + intros q nm H. cbn [existsb]. destruct (I3 q nm H) as [H1|H1].
      * apply has_name_union_sound in H1. destruct H1 as [H1|H1]; [left; exact H1|right; rewrite H1; reflexivity].
      * right. rewrite H1. apply orb_true_r.
Qed.

Theorem cluster_wide_sound sel p nsl ingress hp hnsl :
  forallb netpol_okb sel = true -> pod_okb p = true ->
  let cw := cluster_wide sel p ingress in
  let W := PPod p nsl in let X := PPod hp hnsl in
  (forall pr n, cs_denote cw pr n = true ->
     existsb (fun np => s_np_policy_allows np (x_src W X ingress) (x_dst W X ingress) ingress pr n) sel = true) /\
  (* egress: a stored name means that name as the other pod declares it *)
  (ingress = false -> forall q nm n, has_name cw q nm = true -> pod_named_port (p_ports hp) nm = Some (q, n) ->
     existsb (fun np => s_np_policy_allows np W X false q n) sel = true).
Proof.
  intros Hok Hp. cbn zeta. unfold cluster_wide.
  set (f := fun np => let cw := pe_cw (scan_dir np (if ingress then Ingress else Egress)) in
                      if ingress then convert_named p cw else cw).
  assert (Hfw : forall np, In np sel -> cs_wf (f np)).
  { intros np Hin. rewrite forallb_forall in Hok. destruct (scan_dir_ok np ingress (Hok np Hin)) as (_ & W2 & _).
    unfold f. cbn zeta. change (if ingress then Ingress else Egress) with (dir_of ingress).
    destruct ingress; [apply convert_named_ok; assumption|exact W2]. }
  destruct (fold_union_ok f sel (cs_make false) (cs_make_wf false) Hfw) as (F1 & F2 & F3). cbn zeta in *.
  assert (Hother : forall (ing : bool), (if ing then x_src (PPod p nsl) (PPod hp hnsl) ing else x_dst (PPod p nsl) (PPod hp hnsl) ing) = PPod hp hnsl)
    by (intros [|]; reflexivity).
  assert (Hrule_num : forall np rl pr n, opens rl = true -> num_rule_ports (nr_ports rl) pr n = true ->
             s_np_rule (np_ns np) rl (PPod hp hnsl) (x_dst (PPod p nsl) (PPod hp hnsl) ingress) pr n = true).
  { intros np rl pr n R1 R2. unfold s_np_rule. rewrite (opens_matches (np_ns np) rl (PPod hp hnsl) R1 eq_refl). cbn [andb].
    apply num_rule_ports_any. exact R2. }
  split.
  - intros pr n Hden. rewrite F2, cs_make_false_denote in Hden. cbn [orb] in Hden. revert Hden. apply existsb_impl.
    intros np Hin Hd. rewrite forallb_forall in Hok. specialize (Hok np Hin).
    destruct (scan_dir_ok np ingress Hok) as (_ & W2 & _ & S2). cbn zeta in *.
    unfold s_np_policy_allows. rewrite Hother. change (if ingress then np_in np else np_eg np) with (dir_rules np ingress).
    unfold f in Hd. cbn zeta in Hd. change (if ingress then Ingress else Egress) with (dir_of ingress) in Hd.
    destruct ingress.
    + destruct (convert_named_ok p _ Hp W2) as [_ Hc]. rewrite Hc in Hd. apply orb_true_iff in Hd. destruct Hd as [Hd|Hd].
      * destruct (S2 pr n Hd) as [_ Hex]. revert Hex. apply existsb_impl. intros rl _ Hrl.
        apply andb_true_iff in Hrl. destruct Hrl as [R1 R2]. apply (Hrule_num np rl pr n R1 R2).
      * apply andb_true_iff in Hd. destruct Hd as [_ Hd]. apply existsb_exists in Hd. destruct Hd as (pn & Hpn & Hd).
        apply andb_true_iff in Hd. destruct Hd as [Eq Hd]. apply proto_eqb_eq in Eq.
        apply existsb_exists in Hd. destruct Hd as (nm & Hnm & Hres).
        pose proof (named_ports_has_name _ pn nm Hpn Hnm) as Hhas. rewrite Eq in Hhas.
        apply (scan_dir_names np true pr nm) in Hhas. revert Hhas. apply existsb_impl. intros rl _ Hrl.
        apply andb_true_iff in Hrl. destruct Hrl as [R1 R2].
        unfold s_np_rule. rewrite (opens_matches (np_ns np) rl (PPod hp hnsl) R1 eq_refl). cbn [andb x_dst].
        unfold resolves in Hres. destruct (pod_named_port (p_ports p) nm) as [[pr' m]|] eqn:Enp; [|discriminate Hres].
        apply andb_true_iff in Hres. destruct Hres as [Hres Hmn]. apply andb_true_iff in Hres. destruct Hres as [Hpq _].
        apply proto_eqb_eq in Hpq. apply Z.eqb_eq in Hmn. subst pr' m. rewrite Eq in Enp.
        apply (named_port_matches _ pr nm p nsl n R2 Enp).
    + destruct (S2 pr n Hd) as [_ Hex]. revert Hex. apply existsb_impl. intros rl _ Hrl.
      apply andb_true_iff in Hrl. destruct Hrl as [R1 R2]. apply (Hrule_num np rl pr n R1 R2).
  - intros Hing q nm n Hhas Hdecl. subst ingress. destruct (F3 q nm Hhas) as [H0|Hex]; [rewrite has_name_make in H0; discriminate H0|].
    revert Hex. apply existsb_impl. intros np Hin Hnp. unfold f in Hnp. cbn zeta in Hnp.
    apply (scan_dir_names np false q nm) in Hnp. unfold s_np_policy_allows. cbn [dir_rules] in Hnp.
    revert Hnp. apply existsb_impl. intros rl _ Hrl. apply andb_true_iff in Hrl. destruct Hrl as [R1 R2].
    unfold s_np_rule. rewrite (opens_matches (np_ns np) rl (PPod hp hnsl) R1 eq_refl). cbn [andb].
    apply (named_port_matches _ q nm hp hnsl n R2 Hdecl).
Qed.

(* ---------- egress entries: a stored name means that name as declared by the other pod ---------- *)
Lemma scan_fold_names_ext rules : forall e,
  forall q nm, has_name (pe_ext (fold_left scan_rule rules e)) q nm = true ->
               has_name (pe_ext e) q nm = true \/ existsb (fun rl => no_peers rl && named_rule_ports (nr_ports rl) q nm) rules = true.
Proof.
  induction rules as [|rl t IH]; intros e q nm H; cbn [fold_left] in H; [left; exact H|].
  cbn [existsb]. destruct (IH _ q nm H) as [H1|H1]; [|right; rewrite H1; apply orb_true_r].
  unfold scan_rule, no_peers in *. destruct (nr_peers rl) as [|p0 pt].
  - cbn [pe_ext] in H1. apply has_name_union_sound in H1. rewrite has_name_rule_nodst in H1.
    destruct H1 as [H1|H1]; [left; exact H1|right; cbn [andb]; rewrite H1; reflexivity].
  - destruct (scan_entries (p0 :: pt) []); cbn [pe_ext] in H1; left; exact H1.
Qed.
Lemma scan_dir_names_ext np ingress q nm :
  has_name (pe_ext (scan_dir np (dir_of ingress))) q nm = true ->
  existsb (fun rl => no_peers rl && named_rule_ports (nr_ports rl) q nm) (dir_rules np ingress) = true.
Proof.
  unfold scan_dir. destruct (np_affects np (dir_of ingress)).
  - replace (match dir_of ingress with Ingress => np_in np | Egress => np_eg np end) with (dir_rules np ingress)
      by (destruct ingress; reflexivity).
    intros H. destruct (scan_fold_names_ext (dir_rules np ingress) pol_exp0 q nm H) as [H1|H1]; [|exact H1].
    cbn [pol_exp0 pe_ext] in H1. rewrite has_name_make in H1. discriminate H1.
  - cbn [pol_exp0 pe_ext]. rewrite has_name_make. discriminate.
Qed.

Lemma rules_conns_rep_names npns r real rules q nm : forall res c,
  rules_conns_rep npns rules r real false res = Ok c -> has_name c q nm = true ->
  has_name res q nm = true \/ existsb (fun rl => rsel npns r rl && named_rule_ports (nr_ports rl) q nm) rules = true.
Proof.
  induction rules as [|rl t IH]; intros res c H Hn; cbn [rules_conns_rep] in H.
  - inversion H; subst c. left. exact Hn.
  - cbn [existsb]. unfold rsel at 1.
    destruct (rule_selects_rep npns (nr_peers rl) r) as [sel|e]; cbn [bind] in H; [|discriminate H].
    destruct sel; cbn [negb bind] in H.
    + destruct (IH _ _ H Hn) as [H1|H1]; [|right; rewrite H1; apply orb_true_r].
      apply has_name_union_sound in H1. rewrite has_name_rule_nodst in H1.
      destruct H1 as [H1|H1]; [left; exact H1|right; cbn [andb]; rewrite H1; reflexivity].
    + destruct (IH _ _ H Hn) as [H1|H1]; [left; exact H1|right; rewrite H1; apply orb_true_r].
Qed.

Theorem rep_conns_names_sound w p nsl r c hp hnsl :
  forallb netpol_okb (w_nps w) = true -> satisfies hp hnsl r ->
  conns_with_rep w p nsl r false = Ok c ->
  forall q nm n, has_name c q nm = true -> pod_named_port (p_ports hp) nm = Some (q, n) ->
    match s_np_layer w (PPod p nsl) (PPod hp hnsl) false q n with
    | Some b => b = true
    | None => True
    end.
Proof.
  intros Hok Hsat H q nm n Hn Hdecl. unfold conns_with_rep in H.
  destruct (selecting_nps (w_nps w) p Egress) as [sel|e] eqn:Hs; cbn [bind] in H; [|discriminate H].
  apply selecting_nps_ok in Hs. unfold s_np_layer. rewrite <- Hs.
  destruct sel as [|np0 t0]; [exact I|].
  destruct (nps_union_rep (np0 :: t0) r (PPod p nsl) false (cs_make false)) as [c'|e] eqn:Hc; cbn [bind] in H; [|discriminate H].
  inversion H; subst c. change (cs_inter c' (cs_make true)) with c' in Hn.
  assert (G : forall sel acc c0, nps_union_rep sel r (PPod p nsl) false acc = Ok c0 -> has_name c0 q nm = true ->
              has_name acc q nm = true \/
              existsb (fun np => s_np_policy_allows np (PPod p nsl) (PPod hp hnsl) false q n) sel = true).
  { induction sel as [|np t IH]; intros acc c0 Hu Hh; cbn [nps_union_rep] in Hu.
    - inversion Hu; subst c0. left. exact Hh.
    - destruct (policy_conns_rep np r (PPod p nsl) false) as [pc|e] eqn:Epc; cbn [bind] in Hu; [|discriminate Hu].
      cbn [existsb]. destruct (IH _ _ Hu Hh) as [H1|H1]; [|right; rewrite H1; apply orb_true_r].
      apply has_name_union_sound in H1. destruct H1 as [H1|H1]; [left; exact H1|]. right.
      assert (Hal : s_np_policy_allows np (PPod p nsl) (PPod hp hnsl) false q n = true).
      { unfold s_np_policy_allows. unfold policy_conns_rep in Epc.
        assert (Hfin : forall (P : np_rule -> bool),
                   (forall rl, P rl = true -> s_np_rule_peers (np_ns np) (nr_peers rl) (PPod hp hnsl) = true) ->
                   existsb (fun rl => P rl && named_rule_ports (nr_ports rl) q nm) (np_eg np) = true ->
                   existsb (fun rl => s_np_rule (np_ns np) rl (PPod hp hnsl) (PPod hp hnsl) q n) (np_eg np) = true).
        { intros P HP. apply existsb_impl. intros rl _ Hrl. apply andb_true_iff in Hrl. destruct Hrl as [R1 R2].
          unfold s_np_rule. rewrite (HP rl R1). cbn [andb]. apply (named_port_matches _ q nm hp hnsl n R2 Hdecl). }
        destruct (cs_all (pe_ext (scan_dir np Egress))) eqn:Eext.
        - inversion Epc; subst pc. apply (scan_dir_names_ext np false q nm) in H1. cbn [dir_rules] in H1.
          apply (Hfin no_peers); [|exact H1]. intros rl R. apply no_peers_matches. exact R.
        - destruct (cs_all (pe_cw (scan_dir np Egress))) eqn:Ecw.
          + inversion Epc; subst pc. apply (scan_dir_names np false q nm) in H1. cbn [dir_rules] in H1.
            apply (Hfin opens); [|exact H1]. intros rl R. exact (opens_matches (np_ns np) rl (PPod hp hnsl) R eq_refl).
          + destruct (rules_conns_rep_names (np_ns np) r (PPod p nsl) (np_eg np) q nm _ _ Epc H1) as [H2|H2];
              [rewrite has_name_make in H2; discriminate H2|].
            apply (Hfin (rsel (np_ns np) r)); [|exact H2]. intros rl R. unfold rsel in R.
            destruct (rule_selects_rep (np_ns np) (nr_peers rl) r) as [b|e] eqn:Esel; [|discriminate R]. subst b.
            apply (rule_selects_rep_sound _ _ _ _ _ Hsat Esel). }
      rewrite Hal. reflexivity. }
  destruct (G _ _ _ Hc Hn) as [H0|H0]; [rewrite has_name_make in H0; discriminate H0|exact H0].
Qed.

(* ---------- the protected flag (C06) ---------- *)
Theorem protected_iff_governed w p nsl ingress reps d :
  dir_data w p nsl ingress reps = Ok (Some d) ->
  xd_protected d = negb (match filter (fun np => s_np_governs np p (dir_of ingress)) (w_nps w) with [] => true | _ => false end).
Proof.
  unfold dir_data. change (if ingress then Ingress else Egress) with (dir_of ingress). intros H.
  destruct (selecting_nps (w_nps w) p (dir_of ingress)) as [sel|e] eqn:Hs; cbn [bind] in H; [|discriminate H].
  apply selecting_nps_ok in Hs. rewrite <- Hs. destruct sel as [|np t].
  - inversion H; subst d. reflexivity.
  - destruct (rep_entries w p nsl (cluster_wide (np :: t) p ingress) ingress reps) as [es|e]; cbn [bind] in H; [|discriminate H].
    destruct ((if cs_isempty (cluster_wide (np :: t) p ingress) then [] else [mkXE true (mkSel [] []) (mkSel [] []) (cluster_wide (np :: t) p ingress)]) ++ es);
      inversion H; subst d; reflexivity.
Qed.

(* ---------- the shortcuts of exposure mode change nothing between real peers (C06's base report) ---------- *)
Definition all_canon (c : connset) : Prop := cs_all c = true -> c = cs_make true.

Lemma all_canon_union c o : all_canon c -> all_canon o -> all_canon (cs_union c o).
Proof.
  unfold all_canon. intros Hc Ho. rewrite cs_union_eq. destruct (cs_all c) eqn:Eac; cbn [orb].
  - intros _. apply Hc. reflexivity.
  - destruct (cs_isempty o); [intros H; rewrite Eac in H; discriminate H|].
    destruct (cs_all o); [reflexivity|]. unfold cs_check_all. destruct (cs_is_all_without_allowall _); [reflexivity|].
    rewrite cs_all_map, Eac. discriminate.
Qed.
Lemma all_canon_nodst ports : all_canon (rule_conns_nodst ports).
Proof.
  unfold all_canon, rule_conns_nodst. destruct ports as [|pp t]; [reflexivity|].
  assert (G : forall l res, cs_all (ports_conns_nodst l res) = cs_all res).
  { induction l as [|x l' IH]; intros res; cbn [ports_conns_nodst]; [reflexivity|]. rewrite IH. apply cs_addconn_all. }
  rewrite G. discriminate.
Qed.
Lemma all_canon_scan rules : forall e, all_canon (pe_ext e) -> all_canon (pe_cw e) ->
  all_canon (pe_ext (fold_left scan_rule rules e)) /\ all_canon (pe_cw (fold_left scan_rule rules e)).
Proof.
  induction rules as [|rl t IH]; intros e He Hc; cbn [fold_left]; [split; assumption|].
  apply IH; unfold scan_rule; destruct (nr_peers rl) as [|p0 pt]; cbn [pe_ext pe_cw];
    try (apply all_canon_union; [assumption|apply all_canon_nodst]);
    destruct (scan_entries (p0 :: pt) []); cbn [pe_ext pe_cw]; try assumption;
    apply all_canon_union; [assumption|apply all_canon_nodst].
Qed.
Lemma all_canon_scan_dir np d : all_canon (pe_ext (scan_dir np d)) /\ all_canon (pe_cw (scan_dir np d)).
Proof.
  unfold scan_dir. destruct (np_affects np d).
  - apply all_canon_scan; intros H; discriminate H.
  - cbn [pol_exp0 pe_ext pe_cw]. split; intros H; discriminate H.
Qed.

Lemma ninv_all_is_make c : cs_ninv c -> (forall p n, valid_port n = true -> cs_denote c p n = true) -> c = cs_make true.
Proof.
  intros Hn Hall. pose proof (proj1 (cs_allowall_canonical c Hn) Hall) as Ha.
  destruct Hn as (_ & _ & Hnone & _). apply cs_ext; [exact Ha|]. intros p. rewrite cs_get_make. apply Hnone. exact Ha.
Qed.

Lemma np_dir_conns_x_same np src dst ingress c :
  netpol_okb np = true -> peer_okb dst = true ->
  np_dir_conns np src dst ingress = Ok c -> np_dir_conns_x np src dst ingress = Ok c.
Proof.
  intros Hok Hd H. unfold np_dir_conns_x. change (if ingress then Ingress else Egress) with (dir_of ingress).
  destruct (np_dir_conns_ok np src dst ingress c Hd Hok H) as [Hcn Hcd].
  destruct (scan_dir_ok np ingress Hok) as (_ & _ & S1 & S2). cbn zeta in *.
  destruct (all_canon_scan_dir np (dir_of ingress)) as [A1 A2].
  set (other := if ingress then src else dst) in *.
  assert (Hall : forall (P : np_rule -> bool),
             (forall rl, P rl = true -> s_np_rule_peers (np_ns np) (nr_peers rl) other = true) ->
             (forall pr n, valid_port n = true -> existsb (fun rl => P rl && num_rule_ports (nr_ports rl) pr n) (dir_rules np ingress) = true) ->
             c = cs_make true).
  { intros P HP Hex. apply (ninv_all_is_make c Hcn). intros pr n Hv. rewrite Hcd, Hv. cbn [andb].
    unfold s_np_policy_allows. change (if ingress then np_in np else np_eg np) with (dir_rules np ingress).
    specialize (Hex pr n Hv). revert Hex. apply existsb_impl. intros rl _ Hrl. apply andb_true_iff in Hrl. destruct Hrl as [R1 R2].
    unfold s_np_rule. fold other. rewrite (HP rl R1). cbn [andb]. apply num_rule_ports_any. exact R2. }
  destruct (cs_all (pe_ext (scan_dir np (dir_of ingress)))) eqn:Eext.
  - rewrite (A1 Eext). f_equal. symmetry. apply (Hall no_peers).
    + intros rl R. apply no_peers_matches. exact R.
    + intros pr n Hv. apply (S1 pr n). rewrite (cs_all_denote _ pr n Eext). exact Hv.
  - destruct (cs_all (pe_cw (scan_dir np (dir_of ingress)))) eqn:Ecw; cbn [andb]; [|exact H].
    destruct (peer_is_ip other) eqn:Eip; cbn [negb]; [exact H|].
    rewrite (A2 Ecw). f_equal. symmetry. apply (Hall opens).
    + intros rl R. apply (opens_matches (np_ns np) rl other R Eip).
    + intros pr n Hv. apply (S2 pr n). rewrite (cs_all_denote _ pr n Ecw). exact Hv.
Qed.

Lemma nps_union_conns_x_same sel src dst ingress : forall acc c,
  forallb netpol_okb sel = true -> peer_okb dst = true ->
  nps_union_conns sel src dst ingress acc = Ok c -> nps_union_conns_x sel src dst ingress acc = Ok c.
Proof.
  induction sel as [|np t IH]; intros acc c Hok Hd H; cbn [nps_union_conns nps_union_conns_x] in *; [exact H|].
  cbn [forallb] in Hok. apply andb_true_iff in Hok. destruct Hok as [Hnp Ht].
  destruct (np_dir_conns np src dst ingress) as [pc|e] eqn:Epc; cbn [bind] in H; [|discriminate H].
  rewrite (np_dir_conns_x_same np src dst ingress pc Hnp Hd Epc). cbn [bind]. apply IH; assumption.
Qed.

Lemma np_layer_x_same w src dst ingress r :
  forallb netpol_okb (w_nps w) = true -> peer_okb dst = true ->
  np_layer w src dst ingress = Ok r -> np_layer_x w src dst ingress = Ok r.
Proof.
  intros Hok Hd H. unfold np_layer in H. unfold np_layer_x. destruct (if ingress then dst else src) as [p nsl|b]; [|exact H].
  destruct (selecting_nps (w_nps w) p (if ingress then Ingress else Egress)) as [sel|e] eqn:Hs; cbn [bind] in *; [|discriminate H].
  destruct sel as [|np t]; [exact H|].
  destruct (nps_union_conns (np :: t) src dst ingress (cs_make false)) as [c|e] eqn:Hc; cbn [bind] in H; [|discriminate H].
  assert (Hok' : forallb netpol_okb (np :: t) = true).
  { apply selecting_nps_ok in Hs. rewrite Hs. apply forallb_filter. exact Hok. }
  rewrite (nps_union_conns_x_same _ _ _ _ _ _ Hok' Hd Hc). exact H.
Qed.

Lemma xgress_conns_x_same w src dst ingress c :
  w_anps w = [] -> w_banp w = None -> forallb netpol_okb (w_nps w) = true -> peer_okb dst = true ->
  xgress_conns w src dst ingress = Ok c -> xgress_conns_x w src dst ingress = Ok c.
Proof.
  intros Ha Hb Hok Hd H. unfold xgress_conns in H. rewrite Ha in H. cbn [anps_conns bind] in H.
  change (negb (pc_isempty pc_new)) with false in H. cbn [andb] in H.
  unfold xgress_conns_x. destruct (np_layer w src dst ingress) as [npc|e] eqn:El; cbn [bind] in H; [|discriminate H].
  rewrite (np_layer_x_same w src dst ingress npc Hok Hd El). cbn [bind].
  destruct npc as [npa|]; [exact H|].
  unfold default_conns in H. rewrite Hb in H. cbn [bind] in H. exact H.
Qed.

Lemma all_conns_x_same w src dst c :
  w_anps w = [] -> w_banp w = None -> forallb netpol_okb (w_nps w) = true -> peer_okb dst = true ->
  all_conns w src dst = Ok c -> all_conns_x w src dst = Ok c.
Proof.
  intros Ha Hb Hok Hd H. unfold all_conns in H. unfold all_conns_x. destruct (pod_to_itself src dst); [exact H|].
  destruct (xgress_conns w src dst false) as [eg|e] eqn:Eeg; cbn [bind] in H; [|discriminate H].
  rewrite (xgress_conns_x_same w src dst false eg Ha Hb Hok Hd Eeg). cbn [bind].
  destruct (cs_isempty eg); [exact H|].
  destruct (xgress_conns w src dst true) as [ing|e] eqn:Eing; cbn [bind] in H; [|discriminate H].
  rewrite (xgress_conns_x_same w src dst true ing Ha Hb Hok Hd Eing). exact H.
Qed.

Definition mpeer_ok (d : mpeer) : Prop := match mp_pod d with Some p => pod_okb p = true | None => True end.

Lemma pair_conns_x_same w s d c :
  w_anps w = [] -> w_banp w = None -> forallb netpol_okb (w_nps w) = true -> mpeer_ok d ->
  pair_conns w s d = Ok c -> pair_conns_x w s d = Ok c.
Proof.
  intros Ha Hb Hok Hd H. unfold pair_conns in H. unfold pair_conns_x.
  destruct (eval_peer w s) as [sp|e]; cbn [bind] in *; [|discriminate H].
  destruct (eval_peer w d) as [dp|e] eqn:Edp; cbn [bind] in *; [|discriminate H].
  apply all_conns_x_same; try assumption.
  unfold eval_peer in Edp. unfold mpeer_ok in Hd. destruct (mp_pod d) as [p|].
  - unfold pod_peer in Edp. destruct (find_ns (p_ns p) (w_nss w)); inversion Edp. exact Hd.
  - inversion Edp. reflexivity.
Qed.

Lemma row_conns_g_same w s ds : forall l,
  w_anps w = [] -> w_banp w = None -> forallb netpol_okb (w_nps w) = true -> (forall d, In d ds -> mpeer_ok d) ->
  row_conns w EmptyString s ds = Ok l -> row_conns_g (pair_conns_x w) s ds = Ok l.
Proof.
  induction ds as [|d t IH]; intros l Ha Hb Hok Hds H; cbn [row_conns row_conns_g] in *; [exact H|].
  assert (Ht : forall d0, In d0 t -> mpeer_ok d0) by (intros d0 H0; apply Hds; right; exact H0).
  destruct (include_pair EmptyString s d).
  - destruct (pair_conns w s d) as [c|e] eqn:Ec; cbn [bind] in H; [|discriminate H].
    rewrite (pair_conns_x_same w s d c Ha Hb Hok (Hds d (or_introl eq_refl)) Ec). cbn [bind].
    destruct (row_conns w EmptyString s t) as [rest|e] eqn:Er; cbn [bind] in H; [|discriminate H].
    rewrite (IH rest Ha Hb Hok Ht eq_refl). exact H.
  - apply IH; assumption.
Qed.

Lemma all_rows_g_same w ds ss : forall l,
  w_anps w = [] -> w_banp w = None -> forallb netpol_okb (w_nps w) = true -> (forall d, In d ds -> mpeer_ok d) ->
  all_rows w EmptyString ss ds = Ok l -> all_rows_g (pair_conns_x w) ss ds = Ok l.
Proof.
  induction ss as [|s t IH]; intros l Ha Hb Hok Hds H; cbn [all_rows all_rows_g] in *; [exact H|].
  destruct (row_conns w EmptyString s ds) as [a|e] eqn:Ea; cbn [bind] in H; [|discriminate H].
  rewrite (row_conns_g_same w s ds a Ha Hb Hok Hds Ea). cbn [bind].
  destruct (all_rows w EmptyString t ds) as [b|e] eqn:Eb; cbn [bind] in H; [|discriminate H].
  rewrite (IH b Ha Hb Hok Hds eq_refl). exact H.
Qed.

Lemma mpeers_ok w blocks : forallb pod_okb (w_pods w) = true -> forall d, In d (mpeers_of w blocks) -> mpeer_ok d.
Proof.
  intros Hp d Hin. unfold mpeers_of in Hin. apply in_app_or in Hin. destruct Hin as [Hin|Hin]; apply in_map_iff in Hin;
    destruct Hin as (x & Hx & Hin); subst d; unfold mpeer_ok; cbn [mp_pod]; [exact I|].
  destruct x as [k p]. cbn [snd]. apply workloads_of_subset in Hin. destruct Hin as [(k0 & [])|Hin].
  rewrite forallb_forall in Hp. exact (Hp p Hin).
Qed.

(* the base report of exposure mode is the report of list *)
Theorem exposure_base_report_unchanged w r :
  w_anps w = [] -> w_banp w = None -> forallb netpol_okb (w_nps w) = true -> forallb pod_okb (w_pods w) = true ->
  list_world w EmptyString false = Ok r -> list_world_x w = Ok r.
Proof.
  intros Ha Hb Hok Hp H. unfold list_world in H. unfold list_world_x, list_world_g.
  destruct (w_pods w) as [|p0 pt] eqn:Epods; [exact H|]. rewrite <- Epods in *.
  destruct (negb (owners_consistent (w_pods w))); [exact H|].
  destruct (referenced_blocks (w_nps w)) as [blocks|e]; cbn [bind] in *; [|discriminate H].
  cbn [String.eqb negb andb] in H.
  destruct (all_rows w EmptyString (mpeers_of w (ip_partition blocks)) (mpeers_of w (ip_partition blocks))) as [es|e] eqn:Ee; cbn [bind] in H; [|discriminate H].
  rewrite (all_rows_g_same w _ _ es Ha Hb Hok (mpeers_ok w (ip_partition blocks) Hp) Ee). exact H.
Qed.

(* ---------- from the reported entries back to the evaluation they came from ---------- *)
Lemma rep_entries_in w p nsl cw ingress reps : forall es e,
  rep_entries w p nsl cw ingress reps = Ok es -> In e es ->
  exists r, In r reps /\ xe_cluster e = false /\ xe_nssel e = rp_nssel r /\ xe_podsel e = osel_or_empty (rp_podsel r) /\
            conns_with_rep w p nsl r ingress = Ok (xe_conn e) /\ cs_isempty (xe_conn e) = false.
Proof.
  induction reps as [|r t IH]; intros es e H Hin; cbn [rep_entries] in H.
  - inversion H; subst es. destruct Hin.
  - destruct (conns_with_rep w p nsl r ingress) as [c|er] eqn:Ec; cbn [bind] in H; [|discriminate H].
    destruct (rep_entries w p nsl cw ingress t) as [rest|er] eqn:Er; cbn [bind] in H; [|discriminate H].
    assert (Hrest : In e rest -> exists r0, In r0 (r :: t) /\ xe_cluster e = false /\ xe_nssel e = rp_nssel r0 /\
                                            xe_podsel e = osel_or_empty (rp_podsel r0) /\
                                            conns_with_rep w p nsl r0 ingress = Ok (xe_conn e) /\ cs_isempty (xe_conn e) = false).
    { intros Hr. destruct (IH rest e eq_refl Hr) as (r0 & Hr0 & R). exists r0. split; [right; exact Hr0|exact R]. }
    destruct (cs_isempty c) eqn:Eemp; [inversion H; subst es; apply Hrest; exact Hin|].
    destruct (negb (cs_isempty cw) && cs_containedin c cw); [inversion H; subst es; apply Hrest; exact Hin|].
    inversion H; subst es. destruct Hin as [Hin|Hin]; [|apply Hrest; exact Hin].
    subst e. exists r. cbn [xe_cluster xe_nssel xe_podsel xe_conn]. split; [left; reflexivity|].
    split; [reflexivity|]. split; [reflexivity|]. split; [reflexivity|]. split; [exact Ec|exact Eemp].
Qed.

Lemma osel_or_empty_matches s l : sel_matches_raw (osel_or_empty s) l = s_opt_sel s l true.
Proof. destruct s as [x|]; reflexivity. Qed.

(* C06: every reported entry is realizable *)
Theorem reported_entry_realizable w reps p nsl ingress d e hp hnsl :
  forallb netpol_okb (w_nps w) = true -> pod_okb p = true ->
  dir_data w p nsl ingress reps = Ok (Some d) -> In e (xd_entries d) ->
  (xe_cluster e = true \/
   (sel_matches_raw (xe_nssel e) hnsl = true /\ sel_matches_raw (xe_podsel e) (p_labels hp) = true /\
    lookup K8sNsNameLabelKey hnsl = Some (p_ns hp))) ->
  let W := PPod p nsl in let X := PPod hp hnsl in
  (forall pr n, cs_denote (xe_conn e) pr n = true ->
     s_np_layer w (x_src W X ingress) (x_dst W X ingress) ingress pr n = Some true) /\
  (ingress = false -> forall q nm n, has_name (xe_conn e) q nm = true -> pod_named_port (p_ports hp) nm = Some (q, n) ->
     s_np_layer w W X false q n = Some true).
Proof.
  intros Hok Hp H Hin Hsat. cbn zeta. unfold dir_data in H.
  change (if ingress then Ingress else Egress) with (dir_of ingress) in H.
  destruct (selecting_nps (w_nps w) p (dir_of ingress)) as [sel|er] eqn:Hs; cbn [bind] in H; [|discriminate H].
  pose proof (selecting_nps_ok _ _ _ _ Hs) as Hsel.
  destruct sel as [|np0 t0]; [inversion H; subst d; destruct Hin|].
  set (sel := np0 :: t0) in *.
  destruct (rep_entries w p nsl (cluster_wide sel p ingress) ingress reps) as [es|er] eqn:Ees; cbn [bind] in H; [|discriminate H].
  assert (Hd : xd_entries d = (if cs_isempty (cluster_wide sel p ingress) then [] else [mkXE true (mkSel [] []) (mkSel [] []) (cluster_wide sel p ingress)]) ++ es).
  { destruct ((if cs_isempty (cluster_wide sel p ingress) then [] else [mkXE true (mkSel [] []) (mkSel [] []) (cluster_wide sel p ingress)]) ++ es) eqn:E;
      inversion H; subst d; reflexivity. }
  rewrite Hd in Hin. clear H Hd.
  assert (Hlayer : forall (ing : bool) pr n, ing = ingress ->
            s_np_layer w (x_src (PPod p nsl) (PPod hp hnsl) ing) (x_dst (PPod p nsl) (PPod hp hnsl) ing) ing pr n
            = Some (existsb (fun np => s_np_policy_allows np (x_src (PPod p nsl) (PPod hp hnsl) ing) (x_dst (PPod p nsl) (PPod hp hnsl) ing) ing pr n) sel)).
  { intros ing pr n ->. unfold s_np_layer.
    replace (if ingress then x_dst (PPod p nsl) (PPod hp hnsl) ingress else x_src (PPod p nsl) (PPod hp hnsl) ingress)
      with (PPod p nsl) by (destruct ingress; reflexivity).
    change (if ingress then Ingress else Egress) with (dir_of ingress). rewrite <- Hsel. reflexivity. }
  assert (Hoksel : forallb netpol_okb sel = true) by (rewrite Hsel; apply forallb_filter; exact Hok).
  apply in_app_or in Hin. destruct Hin as [Hin|Hin].
  - (* the entire-cluster entry *)
    destruct (cs_isempty (cluster_wide sel p ingress)); [destruct Hin|]. destruct Hin as [He|[]]. subst e. cbn [xe_conn].
    destruct (cluster_wide_sound sel p nsl ingress hp hnsl Hoksel Hp) as [C1 C2]. cbn zeta in *. split.
    + intros pr n Hden. rewrite (Hlayer ingress pr n eq_refl), (C1 pr n Hden). reflexivity.
    + intros Hing q nm n Hn Hdecl. subst ingress. pose proof (Hlayer false q n eq_refl) as HL. cbn [x_src x_dst] in HL.
      rewrite HL, (C2 eq_refl q nm n Hn Hdecl). reflexivity.
  - destruct (rep_entries_in w p nsl _ ingress reps es e Ees Hin) as (r & Hr & Hcl & Hns & Hps & Hc & _).
    destruct Hsat as [Hsat|(S1 & S2 & S3)]; [rewrite Hcl in Hsat; discriminate Hsat|].
    assert (Hsat : satisfies hp hnsl r).
    { split; [rewrite <- Hns; exact S1|]. split; [rewrite <- osel_or_empty_matches, <- Hps; exact S2|exact S3]. }
    split.
    + intros pr n Hden. pose proof (rep_conns_sound w p nsl r ingress _ hp hnsl Hok Hp Hsat Hc pr n Hden) as Hs'.
      rewrite (Hlayer ingress pr n eq_refl) in *. rewrite Hs'. reflexivity.
    + intros Hing q nm n Hn Hdecl. subst ingress.
      pose proof (rep_conns_names_sound w p nsl r _ hp hnsl Hok Hsat Hc q nm n Hn Hdecl) as Hs'.
      pose proof (Hlayer false q n eq_refl) as HL. cbn [x_src x_dst] in HL. rewrite HL in *. rewrite Hs'. reflexivity.
Qed.

(* ======================= completeness (C07) ======================= *)
Definition rep_of (policy_ns : string) (sp : option selector * option selector) : rep :=
  match fst sp with
  | None => mkRep policy_ns (name_sel policy_ns) (snd sp)
  | Some s => mkRep EmptyString s (snd sp)
  end.
Definition rep_valid (r : rep) : bool := sel_valid (rp_nssel r) && osel_valid (rp_podsel r).

Lemma add_rep_ok ns reps sp reps' :
  add_rep ns reps sp = Ok reps' ->
  rep_valid (rep_of ns sp) = true /\
  (forall r, In r reps -> In r reps') /\
  (exists r0, In r0 reps' /\ rep_key_eqb (rep_of ns sp) r0 = true) /\
  (forall r, In r reps' -> In r reps \/ r = rep_of ns sp).
Proof.
  unfold add_rep, rep_of, rep_valid. destruct sp as [nss pods]. cbn [fst snd].
  set (r := match nss with None => mkRep ns (name_sel ns) pods | Some s => mkRep EmptyString s pods end).
  assert (Hp : rp_podsel r = pods) by (unfold r; destruct nss; reflexivity).
  rewrite Hp. destruct (sel_valid (rp_nssel r) && osel_valid pods) eqn:Ev; cbn [negb]; [|discriminate].
  destruct (existsb (rep_key_eqb r) reps) eqn:Ex; intros H; inversion H; subst reps'.
  - split; [reflexivity|]. split; [auto|]. split; [|auto].
    apply existsb_exists in Ex. destruct Ex as (r0 & Hin & Hk). exists r0. split; assumption.
  - split; [reflexivity|]. split; [intros x Hx; apply in_or_app; left; exact Hx|]. split.
    + exists r. split; [apply in_or_app; right; left; reflexivity|]. unfold rep_key_eqb. rewrite !creqs_eqb_refl. reflexivity.
    + intros x Hx. apply in_app_or in Hx. destruct Hx as [Hx|[Hx|[]]]; [left; exact Hx|right; symmetry; exact Hx].
Qed.

Lemma add_reps_ok ns l : forall reps reps',
  add_reps ns reps l = Ok reps' ->
  (forall r, In r reps -> In r reps') /\
  (forall sp, In sp l -> rep_valid (rep_of ns sp) = true /\ exists r0, In r0 reps' /\ rep_key_eqb (rep_of ns sp) r0 = true) /\
  (forall r, In r reps' -> In r reps \/ exists sp, In sp l /\ r = rep_of ns sp).
Proof.
  induction l as [|sp t IH]; intros reps reps' H; cbn [add_reps] in H.
  - inversion H; subst reps'. split; [auto|]. split; [intros sp []|]. intros r Hr. left. exact Hr.
  - destruct (add_rep ns reps sp) as [r1|e] eqn:E1; cbn [bind] in H; [|discriminate H].
    destruct (add_rep_ok ns reps sp r1 E1) as (V & M1 & (r0 & Hr0 & Hk) & O1).
    destruct (IH r1 reps' H) as (M2 & C2 & O2).
    split; [intros r Hr; apply M2, M1, Hr|]. split.
    + intros sp' [Hsp|Hsp]; [subst sp'; split; [exact V|]; exists r0; split; [apply M2; exact Hr0|exact Hk]|apply C2; exact Hsp].
    + intros r Hr. destruct (O2 r Hr) as [Hr1|(sp' & Hsp' & He)].
      * destruct (O1 r Hr1) as [Hr2|Hr2]; [left; exact Hr2|right; exists sp; split; [left; reflexivity|exact Hr2]].
      * right. exists sp'. split; [right; exact Hsp'|exact He].
Qed.

Definition np_pairs (np : netpol) : list (option selector * option selector) :=
  pe_sels (scan_dir np Ingress) ++ pe_sels (scan_dir np Egress).

Lemma gen_reps_ok nps : forall reps reps',
  gen_reps nps reps = Ok reps' ->
  (forall r, In r reps -> In r reps') /\
  (forall np sp, In np nps -> In sp (np_pairs np) ->
     rep_valid (rep_of (np_ns np) sp) = true /\ exists r0, In r0 reps' /\ rep_key_eqb (rep_of (np_ns np) sp) r0 = true) /\
  (forall r, In r reps' -> In r reps \/ exists np sp, In np nps /\ In sp (np_pairs np) /\ r = rep_of (np_ns np) sp).
Proof.
  induction nps as [|np t IH]; intros reps reps' H; cbn [gen_reps] in H.
  - inversion H; subst reps'. split; [auto|]. split; [intros np sp []|]. intros r Hr. left. exact Hr.
  - fold (np_pairs np) in H. destruct (add_reps (np_ns np) reps (np_pairs np)) as [r1|e] eqn:E1; cbn [bind] in H; [|discriminate H].
    destruct (add_reps_ok _ _ _ _ E1) as (M1 & C1 & O1). destruct (IH r1 reps' H) as (M2 & C2 & O2).
    split; [intros r Hr; apply M2, M1, Hr|]. split.
    + intros np' sp [Hnp|Hnp] Hsp.
      * subst np'. destruct (C1 sp Hsp) as (V & r0 & Hr0 & Hk). split; [exact V|]. exists r0. split; [apply M2; exact Hr0|exact Hk].
      * apply (C2 np' sp Hnp Hsp).
    + intros r Hr. destruct (O2 r Hr) as [Hr1|(np' & sp & Hnp & Hsp & He)].
      * destruct (O1 r Hr1) as [Hr2|(sp & Hsp & He)]; [left; exact Hr2|].
        right. exists np, sp. split; [left; reflexivity|]. split; [exact Hsp|exact He].
      * right. exists np', sp. split; [right; exact Hnp|]. split; [exact Hsp|exact He].
Qed.

(* the selector pairs of a rule that does not open the cluster are collected *)
Lemma scan_entries_collects peers : forall acc l,
  scan_entries peers acc = Some l ->
  (forall sp, In sp acc -> In sp l) /\
  (forall nss pods, In (NPSel nss pods) peers -> In (nss, pods) l).
Proof.
  induction peers as [|pr t IH]; intros acc l H; cbn [scan_entries] in H.
  - inversion H; subst l. split; [auto|]. intros nss pods [].
  - destruct pr as [nss pods | cidr exc | | | ]; cbn [entry_selectors] in H.
    + destruct (opens_cluster nss pods); [discriminate H|]. destruct (IH _ _ H) as [I1 I2]. split.
      * intros sp Hsp. apply I1. apply in_or_app. left. exact Hsp.
      * intros n2 p2 [He|Hin]; [inversion He; subst; apply I1; apply in_or_app; right; left; reflexivity|apply I2; exact Hin].
    + destruct (IH _ _ H) as [I1 I2]. split; [exact I1|]. intros n2 p2 [He|Hin]; [discriminate He|apply I2; exact Hin].
    + destruct (IH _ _ H) as [I1 I2]. split; [exact I1|]. intros n2 p2 [He|Hin]; [discriminate He|apply I2; exact Hin].
    + destruct (IH _ _ H) as [I1 I2]. split; [intros sp Hsp; apply I1; apply in_or_app; left; exact Hsp|].
      intros n2 p2 [He|Hin]; [discriminate He|apply I2; exact Hin].
    + destruct (IH _ _ H) as [I1 I2]. split; [exact I1|]. intros n2 p2 [He|Hin]; [discriminate He|apply I2; exact Hin].
Qed.

Lemma scan_fold_sels rules : forall e,
  (forall sp, In sp (pe_sels e) -> In sp (pe_sels (fold_left scan_rule rules e))) /\
  (forall rl nss pods, In rl rules -> opens rl = false -> In (NPSel nss pods) (nr_peers rl) ->
     In (nss, pods) (pe_sels (fold_left scan_rule rules e))).
Proof.
  induction rules as [|rl t IH]; intros e; cbn [fold_left].
  - split; [auto|]. intros rl nss pods [].
  - destruct (IH (scan_rule e rl)) as [I1 I2].
    assert (Hmono : forall sp, In sp (pe_sels e) -> In sp (pe_sels (scan_rule e rl))).
    { intros sp Hsp. unfold scan_rule. destruct (nr_peers rl) as [|p0 pt]; [exact Hsp|].
      destruct (scan_entries (p0 :: pt) []); cbn [pe_sels]; [apply in_or_app; left; exact Hsp|exact Hsp]. }
    split; [intros sp Hsp; apply I1, Hmono, Hsp|].
    intros rl' nss pods [Hrl|Hrl] Hop Hin; [|apply (I2 rl' nss pods Hrl Hop Hin)].
    subst rl'. apply I1. unfold scan_rule. unfold opens in Hop. destruct (nr_peers rl) as [|p0 pt]; [discriminate Hop|].
    destruct (scan_entries (p0 :: pt) []) as [l|] eqn:E; [|discriminate Hop]. cbn [pe_sels]. apply in_or_app. right.
    apply (proj2 (scan_entries_collects _ _ _ E)). exact Hin.
Qed.

Lemma rule_pair_collected np ingress rl nss pods :
  np_affects np (dir_of ingress) = true -> In rl (dir_rules np ingress) -> opens rl = false -> In (NPSel nss pods) (nr_peers rl) ->
  In (nss, pods) (np_pairs np).
Proof.
  intros Ha Hrl Hop Hin. unfold np_pairs. apply in_or_app.
  assert (G : In (nss, pods) (pe_sels (scan_dir np (dir_of ingress)))).
  { unfold scan_dir. rewrite Ha.
    replace (match dir_of ingress with Ingress => np_in np | Egress => np_eg np end) with (dir_rules np ingress) by (destruct ingress; reflexivity).
    apply (proj2 (scan_fold_sels (dir_rules np ingress) pol_exp0) rl nss pods Hrl Hop Hin). }
  destruct ingress; [left|right]; exact G.
Qed.

Lemma creq_insert_nonempty x l : creq_insert x l <> [].
Proof. destruct l as [|y t]; cbn [creq_insert]; [discriminate|]. destruct (String.ltb (cr_key x) (cr_key y)); discriminate. Qed.
Lemma fold_insert_nonempty L : forall acc, acc <> [] -> fold_left (fun a x => creq_insert x a) L acc <> [].
Proof. induction L as [|x t IH]; intros acc H; cbn [fold_left]; [exact H|]. apply IH. apply creq_insert_nonempty. Qed.
Lemma sel_canon_nil s : sel_canon s = [] -> sel_empty s = true.
Proof.
  unfold sel_canon, sel_empty. destruct (s_match s) as [|kv t]; cbn [map app].
  - destruct (s_exprs s) as [|r t]; [reflexivity|]. cbn [map fold_left]. intros H. exfalso.
    revert H. apply fold_insert_nonempty. apply creq_insert_nonempty.
  - cbn [fold_left]. intros H. exfalso. revert H. apply fold_insert_nonempty. apply creq_insert_nonempty.
Qed.

Lemma full_match_complete s rep :
  sel_valid s = true -> osel_valid rep = true -> creqs_eqb (sel_canon s) (osel_canon rep) = true ->
  full_match s rep = Ok true.
Proof.
  intros Hs Hr Hk. unfold full_match. rewrite Hs. cbn [negb]. destruct (sel_empty s) eqn:Ee; [reflexivity|].
  destruct rep as [r|]; cbn [osel_canon osel_valid] in *.
  - rewrite Hr, Hk. reflexivity.
  - apply creqs_eqb_eq in Hk. apply sel_canon_nil in Hk. rewrite Hk in Ee. discriminate Ee.
Qed.

Lemma osel_canon_meaning a b l :
  creqs_eqb (osel_canon a) (osel_canon b) = true -> s_opt_sel a l true = s_opt_sel b l true.
Proof.
  intros H. apply creqs_eqb_eq in H.
  assert (G : forall o, s_opt_sel o l true = forallb (creq_holds l) (osel_canon o)).
  { intros [s|]; cbn [s_opt_sel osel_canon forallb]; [symmetry; apply sel_canon_holds|reflexivity]. }
  rewrite !G, H. reflexivity.
Qed.

Lemma name_sel_valid ns : sel_valid (name_sel ns) = true.
Proof. reflexivity. Qed.

(* the representative peer registered under the key of a rule entry stands for every pod the entry matches,
   and the rule selects it *)
Lemma matching_rep npns nss pods r0 hp hnsl :
  rep_valid (rep_of npns (nss, pods)) = true -> rep_valid r0 = true ->
  rep_key_eqb (rep_of npns (nss, pods)) r0 = true ->
  s_np_peer_matches npns (NPSel nss pods) (PPod hp hnsl) = true ->
  lookup K8sNsNameLabelKey hnsl = Some (p_ns hp) ->
  satisfies hp hnsl r0 /\
  forall peers b, In (NPSel nss pods) peers -> peers_select_rep npns peers r0 = Ok b -> b = true.
Proof.
  intros Hv Hv0 Hk Hm Hname. unfold rep_key_eqb in Hk. apply andb_true_iff in Hk. destruct Hk as [Kn Kp].
  unfold rep_valid in Hv, Hv0. apply andb_true_iff in Hv. destruct Hv as [Vn Vp]. apply andb_true_iff in Hv0. destruct Hv0 as [V0n V0p].
  cbn [s_np_peer_matches] in Hm. apply andb_true_iff in Hm. destruct Hm as [Mn Mp].
  assert (Hpodsel : rp_podsel (rep_of npns (nss, pods)) = pods) by (unfold rep_of; cbn [fst snd]; destruct nss; reflexivity).
  rewrite Hpodsel in Kp, Vp.
  set (nsel := rp_nssel (rep_of npns (nss, pods))) in *.
  assert (Hnsel : nsel = match nss with Some s => s | None => name_sel npns end) by (unfold nsel, rep_of; cbn [fst snd]; destruct nss; reflexivity).
  assert (Hnsm : sel_matches_raw nsel hnsl = true).
  { rewrite Hnsel. destruct nss as [s|]; cbn [s_opt_sel] in Mn; [exact Mn|].
    unfold name_sel, sel_matches_raw. cbn [s_match s_exprs forallb fst snd]. rewrite Hname.
    apply String.eqb_eq in Mn. rewrite Mn, String.eqb_refl. reflexivity. }
  split.
  - split; [rewrite <- (same_requirements_same_meaning nsel (rp_nssel r0) hnsl Kn); exact Hnsm|].
    split; [rewrite <- (osel_canon_meaning pods (rp_podsel r0) (p_labels hp) Kp); exact Mp|exact Hname].
  - induction peers as [|pr t IH]; intros b Hin H; [destruct Hin|]. cbn [peers_select_rep] in H.
    destruct Hin as [He|Hin].
    + subst pr.
      assert (F1 : (match nss with
                    | None => full_match (name_sel npns) (Some (rp_nssel r0))
                    | Some s => full_match s (Some (rp_nssel r0))
                    end) = Ok true).
      { destruct nss as [s|]; rewrite Hnsel in Kn, Vn; apply full_match_complete; assumption || exact V0n || apply name_sel_valid. }
      rewrite F1 in H. cbn [bind negb] in H.
      assert (F2 : (match pods with None => Ok true | Some s => full_match s (rp_podsel r0) end) = Ok true).
      { destruct pods as [s|]; [|reflexivity]. apply full_match_complete; [exact Vp|exact V0p|exact Kp]. }
      rewrite F2 in H. cbn [bind] in H. inversion H. reflexivity.
    + destruct pr as [nss' pods' | cidr exc | | | ]; try discriminate H; try (apply (IH b Hin H)).
      destruct (match nss' with
                | None => full_match (name_sel npns) (Some (rp_nssel r0))
                | Some s => full_match s (Some (rp_nssel r0))
                end) as [nsm|e]; cbn [bind] in H; [|discriminate H].
      destruct nsm; cbn [negb] in H; [|apply (IH b Hin H)].
      destruct (match pods' with None => Ok true | Some s => full_match s (rp_podsel r0) end) as [pm|e]; cbn [bind] in H; [|discriminate H].
      destruct pm; [inversion H; reflexivity|apply (IH b Hin H)].
Qed.

(* ---------- what a governing rule allows is in the sets the entries are made of ---------- *)
Lemma policy_conns_rep_complete np r real ingress pc rl pr n :
  netpol_okb np = true -> peer_okb real = true ->
  policy_conns_rep np r real ingress = Ok pc ->
  In rl (dir_rules np ingress) -> rsel (np_ns np) r rl = true -> pmatch real ingress rl pr n = true -> valid_port n = true ->
  cs_denote pc pr n = true.
Proof.
  intros Hok Hd H Hrl Hsel Hpm Hv. unfold policy_conns_rep in H.
  change (if ingress then Ingress else Egress) with (dir_of ingress) in H.
  change (if ingress then np_in np else np_eg np) with (dir_rules np ingress) in H.
  destruct (cs_all (pe_ext (scan_dir np (dir_of ingress)))) eqn:Eext.
  - inversion H; subst pc. rewrite (cs_all_denote _ pr n Eext). exact Hv.
  - destruct (cs_all (pe_cw (scan_dir np (dir_of ingress)))) eqn:Ecw.
    + inversion H; subst pc. rewrite (cs_all_denote _ pr n Ecw). exact Hv.
    + assert (Hr : forallb np_rule_okb (dir_rules np ingress) = true).
      { unfold netpol_okb in Hok. apply andb_true_iff in Hok. destruct ingress; apply Hok. }
      destruct (rules_conns_rep_ok (np_ns np) r real ingress (dir_rules np ingress) _ _ Hd Hr (cs_make_wf false) H) as [_ Hden].
      rewrite Hden, Hv. cbn [andb]. apply orb_true_iff. right. apply existsb_exists. exists rl. split; [exact Hrl|].
      rewrite Hsel, Hpm. reflexivity.
Qed.

Lemma nps_union_rep_complete sel r real ingress hp0 hnsl0 : forall acc c,
  forallb netpol_okb sel = true -> peer_okb real = true -> satisfies hp0 hnsl0 r -> cs_wf acc ->
  nps_union_rep sel r real ingress acc = Ok c ->
  (forall pr n, cs_denote acc pr n = true -> cs_denote c pr n = true) /\
  (forall np pc pr n, In np sel -> policy_conns_rep np r real ingress = Ok pc -> cs_denote pc pr n = true -> cs_denote c pr n = true).
Proof.
  induction sel as [|np t IH]; intros acc c Hok Hd Hsat Hacc H; cbn [nps_union_rep] in H.
  - inversion H; subst c. split; [auto|]. intros np pc pr n [].
  - cbn [forallb] in Hok. apply andb_true_iff in Hok. destruct Hok as [Hnp Ht].
    destruct (policy_conns_rep np r real ingress) as [pc0|e] eqn:Epc; cbn [bind] in H; [|discriminate H].
    destruct (policy_conns_rep_sound np r real ingress pc0 hp0 hnsl0 Hnp Hd Hsat Epc) as [Hpcw _].
    destruct (IH _ _ Ht Hd Hsat (cs_union_wf _ _ Hacc Hpcw) H) as [I1 I2].
    split.
    + intros pr n Ha. apply I1. rewrite cs_union_denote by assumption. rewrite Ha. reflexivity.
    + intros np' pc pr n [He|Hin] Hpc Hden.
      * subst np'. rewrite Epc in Hpc. inversion Hpc; subst pc. apply I1. rewrite cs_union_denote by assumption. rewrite Hden. apply orb_true_r.
      * apply (I2 np' pc pr n Hin Hpc Hden).
Qed.

Lemma has_name_named_ports c q nm :
  has_name c q nm = true -> exists pn, In pn (cs_named_ports c) /\ fst pn = q /\ In nm (snd pn).
Proof.
  unfold has_name, cs_named_ports. destruct (cs_get c q) as [ps|] eqn:E; [|discriminate]. intros H.
  destruct (ps_named ps) as [|n0 ns] eqn:En; [discriminate H|].
  exists (q, n0 :: ns). split.
  - apply in_flat_map. exists q. split; [destruct q; cbn; auto|]. rewrite E, En. left. reflexivity.
  - split; [reflexivity|]. cbn [snd]. rewrite sset_mem_str_mem in H. clear - H.
    induction (n0 :: ns) as [|y t IH]; [discriminate H|]. cbn [str_mem] in H. apply orb_true_iff in H. destruct H as [H|H].
    + apply String.eqb_eq in H. left. symmetry. exact H.
    + right. apply IH. exact H.
Qed.

Lemma cluster_wide_complete sel p nsl ingress np rl pr n :
  forallb netpol_okb sel = true -> pod_okb p = true -> In np sel -> np_affects np (dir_of ingress) = true ->
  In rl (dir_rules np ingress) -> opens rl = true -> pmatch (PPod p nsl) ingress rl pr n = true -> valid_port n = true ->
  cs_denote (cluster_wide sel p ingress) pr n = true.
Proof.
  intros Hok Hp Hnp Haff Hrl Hop Hpm Hv. unfold cluster_wide.
  set (f := fun np => let cw := pe_cw (scan_dir np (if ingress then Ingress else Egress)) in
                      if ingress then convert_named p cw else cw).
  assert (Hcwok : forall x, In x sel -> cs_wf (pe_cw (scan_dir x (dir_of ingress)))).
  { intros x Hx. rewrite forallb_forall in Hok. destruct (scan_dir_ok x ingress (Hok x Hx)) as (_ & W2 & _). exact W2. }
  assert (Hfw : forall x, In x sel -> cs_wf (f x)).
  { intros x Hx. unfold f. cbn zeta. change (if ingress then Ingress else Egress) with (dir_of ingress).
    destruct ingress; [apply convert_named_ok; [exact Hp|apply Hcwok; exact Hx]|apply Hcwok; exact Hx]. }
  destruct (fold_union_ok f sel (cs_make false) (cs_make_wf false) Hfw) as (_ & F2 & _). cbn zeta in F2.
  rewrite F2. apply orb_true_iff. right. apply existsb_exists. exists np. split; [exact Hnp|].
  (* the policy's own cluster-wide set *)
  rewrite forallb_forall in Hok. pose proof (Hok np Hnp) as Hnpok.
  assert (Hr : forallb np_rule_okb (dir_rules np ingress) = true).
  { unfold netpol_okb in Hnpok. apply andb_true_iff in Hnpok. destruct ingress; apply Hnpok. }
  assert (Hscan : scan_dir np (dir_of ingress) = fold_left scan_rule (dir_rules np ingress) pol_exp0).
  { unfold scan_dir. rewrite Haff. destruct ingress; reflexivity. }
  destruct (scan_fold_ok (dir_rules np ingress) pol_exp0 Hr (cs_make_wf false) (cs_make_wf false)) as (_ & _ & _ & I4). cbn zeta in I4.
  destruct (scan_fold_names (dir_rules np ingress) pol_exp0) as [_ N2]. cbn zeta in N2.
  unfold f. cbn zeta. change (if ingress then Ingress else Egress) with (dir_of ingress). rewrite Hscan.
  set (cw := pe_cw (fold_left scan_rule (dir_rules np ingress) pol_exp0)) in *.
  assert (Hnum : num_rule_ports (nr_ports rl) pr n = true -> cs_denote cw pr n = true).
  { intros Hn. unfold cw. rewrite I4, Hv. cbn [andb]. apply orb_true_iff. right. apply existsb_exists. exists rl.
    split; [exact Hrl|]. rewrite Hop, Hn. reflexivity. }
  unfold pmatch in Hpm. destruct ingress; [|apply Hnum; exact Hpm].
  assert (Hcww : cs_wf cw) by (unfold cw; rewrite <- Hscan; apply (Hcwok np Hnp)).
  destruct (convert_named_ok p cw Hp Hcww) as [_ Hc]. rewrite Hc.
  unfold s_np_rule_ports in Hpm. remember (nr_ports rl) as ports eqn:Eports. symmetry in Eports.
  destruct ports as [|pp0 pt].
  - rewrite Hnum; [reflexivity|]. reflexivity.
  - apply existsb_exists in Hpm. destruct Hpm as (pp & Hpp & Hm). unfold s_np_port_matches in Hm.
    apply andb_true_iff in Hm. destruct Hm as [Hproto Hm].
    destruct (pp_port pp) as [|a|nm] eqn:Eport.
    + rewrite Hnum; [reflexivity|]. unfold num_rule_ports. apply existsb_exists. exists pp. split; [exact Hpp|].
      unfold num_port_matches. rewrite Hproto, Eport. reflexivity.
    + rewrite Hnum; [reflexivity|]. unfold num_rule_ports. apply existsb_exists. exists pp. split; [exact Hpp|].
      unfold num_port_matches. rewrite Hproto, Eport. exact Hm.
    + destruct (cs_all cw) eqn:Eall; [rewrite (cs_all_denote cw pr n Eall), Hv; reflexivity|].
      apply orb_true_iff. right. rewrite Hv. cbn [negb andb].
      destruct (pod_named_port (p_ports p) nm) as [[q' m]|] eqn:Enp; [|discriminate Hm].
      apply andb_true_iff in Hm. destruct Hm as [Hq Hmn]. apply Z.eqb_eq in Hmn. subst m.
      apply proto_eqb_eq in Hq. apply proto_eqb_eq in Hproto. subst q'.
      assert (Hhas : has_name cw pr nm = true).
      { destruct (N2 eq_refl) as [_ Hn]. rewrite Hn. apply orb_true_iff. right. apply existsb_exists. exists rl. split; [exact Hrl|].
        rewrite Hop. cbn [andb]. unfold named_rule_ports. rewrite Eports. apply existsb_exists. exists pp. split; [exact Hpp|].
        unfold named_port_of. rewrite Hproto, Eport, String.eqb_refl.
        replace (proto_eqb pr pr) with true by (destruct pr; reflexivity). reflexivity. }
      destruct (has_name_named_ports cw pr nm Hhas) as (pn & Hpn & Hfst & Hnm).
      apply existsb_exists. exists pn. split; [exact Hpn|]. rewrite Hfst.
      replace (proto_eqb pr pr) with true by (destruct pr; reflexivity). cbn [andb].
      apply existsb_exists. exists nm. split; [exact Hnm|]. unfold resolves. rewrite Enp, Hproto.
      replace (proto_eqb pr pr) with true by (destruct pr; reflexivity). rewrite Z.eqb_refl.
      unfold valid_port, minPort in Hv. unfold NoPort. destruct (n =? -1) eqn:En1; [lia|reflexivity].
Qed.

Lemma rules_conns_rep_all_ok npns r real ingress rules : forall res c,
  rules_conns_rep npns rules r real ingress res = Ok c ->
  forall rl, In rl rules -> exists b, rule_selects_rep npns (nr_peers rl) r = Ok b.
Proof.
  induction rules as [|rl0 t IH]; intros res c H rl Hin; [destruct Hin|]. cbn [rules_conns_rep] in H.
  destruct (rule_selects_rep npns (nr_peers rl0) r) as [sel|e] eqn:Es; cbn [bind] in H; [|discriminate H].
  destruct Hin as [He|Hin]; [subst rl; exists sel; exact Es|].
  destruct sel; cbn [negb] in H.
  - destruct (if ingress then np_rule_conns (nr_ports rl0) real else Ok (rule_conns_nodst (nr_ports rl0))) as [rc|e]; cbn [bind] in H; [|discriminate H].
    apply (IH _ _ H rl Hin).
  - apply (IH _ _ H rl Hin).
Qed.

Lemma policy_conns_rep_complete' np r real ingress pc rl pr n :
  netpol_okb np = true -> peer_okb real = true ->
  policy_conns_rep np r real ingress = Ok pc ->
  In rl (dir_rules np ingress) -> (forall b, rule_selects_rep (np_ns np) (nr_peers rl) r = Ok b -> b = true) ->
  pmatch real ingress rl pr n = true -> valid_port n = true ->
  cs_denote pc pr n = true.
Proof.
  intros Hok Hd H Hrl Hsel Hpm Hv.
  destruct (cs_all (pe_ext (scan_dir np (dir_of ingress)))) eqn:Eext.
  - unfold policy_conns_rep in H. change (if ingress then Ingress else Egress) with (dir_of ingress) in H. rewrite Eext in H.
    inversion H; subst pc. rewrite (cs_all_denote _ pr n Eext). exact Hv.
  - destruct (cs_all (pe_cw (scan_dir np (dir_of ingress)))) eqn:Ecw.
    + unfold policy_conns_rep in H. change (if ingress then Ingress else Egress) with (dir_of ingress) in H. rewrite Eext, Ecw in H.
      inversion H; subst pc. rewrite (cs_all_denote _ pr n Ecw). exact Hv.
    + apply (policy_conns_rep_complete np r real ingress pc rl pr n Hok Hd H Hrl); try assumption.
      unfold policy_conns_rep in H. change (if ingress then Ingress else Egress) with (dir_of ingress) in H. rewrite Eext, Ecw in H.
      change (if ingress then np_in np else np_eg np) with (dir_rules np ingress) in H.
      destruct (rules_conns_rep_all_ok _ _ _ _ _ _ _ H rl Hrl) as [b Hb]. unfold rsel. rewrite Hb. apply Hsel. exact Hb.
Qed.

Lemma nps_union_rep_all_ok sel r real ingress : forall acc c,
  nps_union_rep sel r real ingress acc = Ok c -> forall np, In np sel -> exists pc, policy_conns_rep np r real ingress = Ok pc.
Proof.
  induction sel as [|np0 t IH]; intros acc c H np Hin; [destruct Hin|]. cbn [nps_union_rep] in H.
  destruct (policy_conns_rep np0 r real ingress) as [pc0|e] eqn:Epc; cbn [bind] in H; [|discriminate H].
  destruct Hin as [He|Hin]; [subst np; exists pc0; exact Epc|apply (IH _ _ H np Hin)].
Qed.

Lemma rep_entries_cover w p nsl cw ingress reps : forall es r,
  rep_entries w p nsl cw ingress reps = Ok es -> In r reps ->
  exists c, conns_with_rep w p nsl r ingress = Ok c /\
            (cs_isempty c = true \/ (cs_isempty cw = false /\ cs_containedin c cw = true) \/
             In (mkXE false (rp_nssel r) (osel_or_empty (rp_podsel r)) c) es).
Proof.
  induction reps as [|r0 t IH]; intros es r H Hin; [destruct Hin|]. cbn [rep_entries] in H.
  destruct (conns_with_rep w p nsl r0 ingress) as [c|er] eqn:Ec; cbn [bind] in H; [|discriminate H].
  destruct (rep_entries w p nsl cw ingress t) as [rest|er] eqn:Er; cbn [bind] in H; [|discriminate H].
  destruct Hin as [He|Hin].
  - subst r0. exists c. split; [exact Ec|]. destruct (cs_isempty c) eqn:Eemp; [left; reflexivity|].
    destruct (negb (cs_isempty cw) && cs_containedin c cw) eqn:Ect.
    + right. left. apply andb_true_iff in Ect. destruct Ect as [E1 E2]. apply negb_true_iff in E1. split; assumption.
    + right. right. inversion H; subst es. left. reflexivity.
  - destruct (IH rest r eq_refl Hin) as (c' & Hc' & Hcov). exists c'. split; [exact Hc'|].
    destruct Hcov as [Hcov|[Hcov|Hcov]]; [left; exact Hcov|right; left; exact Hcov|]. right. right.
    destruct (cs_isempty c); [inversion H; subst es; exact Hcov|].
    destruct (negb (cs_isempty cw) && cs_containedin c cw); inversion H; subst es; [exact Hcov|right; exact Hcov].
Qed.

(* C07: every rule of a governing policy that matches a hypothetical pod is reported, or falls under the refinement *)
Theorem governing_rule_is_reported w reps0 keep p nsl ingress d np rl nss pods hp hnsl pr n :
  forallb netpol_okb (w_nps w) = true -> pod_okb p = true ->
  gen_reps (w_nps w) [] = Ok reps0 ->
  dir_data w p nsl ingress (filter keep reps0) = Ok (Some d) ->
  In np (w_nps w) -> s_np_governs np p (dir_of ingress) = true ->
  In rl (dir_rules np ingress) -> In (NPSel nss pods) (nr_peers rl) ->
  s_np_peer_matches (np_ns np) (NPSel nss pods) (PPod hp hnsl) = true ->
  lookup K8sNsNameLabelKey hnsl = Some (p_ns hp) ->
  pmatch (PPod p nsl) ingress rl pr n = true -> valid_port n = true ->
  (exists e, In e (xd_entries d) /\
             (xe_cluster e = true \/
              (sel_matches_raw (xe_nssel e) hnsl = true /\ sel_matches_raw (xe_podsel e) (p_labels hp) = true)) /\
             cs_denote (xe_conn e) pr n = true) \/
  (exists r0, In r0 reps0 /\ keep r0 = false /\ satisfies hp hnsl r0 /\
              rep_key_eqb (rep_of (np_ns np) (nss, pods)) r0 = true).
Proof.
  intros Hok Hp Hgen Hd Hnp Hgov Hrl Hpe Hmatch Hname Hpm Hv.
  unfold dir_data in Hd. change (if ingress then Ingress else Egress) with (dir_of ingress) in Hd.
  destruct (selecting_nps (w_nps w) p (dir_of ingress)) as [sel|er] eqn:Hs; cbn [bind] in Hd; [|discriminate Hd].
  pose proof (selecting_nps_ok _ _ _ _ Hs) as Hsel.
  assert (Hnpsel : In np sel) by (rewrite Hsel; apply filter_In; split; assumption).
  destruct sel as [|np0 t0]; [destruct Hnpsel|]. set (sel := np0 :: t0) in *.
  set (cw := cluster_wide sel p ingress) in *.
  destruct (rep_entries w p nsl cw ingress (filter keep reps0)) as [es|er] eqn:Ees; cbn [bind] in Hd; [|discriminate Hd].
  assert (Hde : xd_entries d = (if cs_isempty cw then [] else [mkXE true (mkSel [] []) (mkSel [] []) cw]) ++ es).
  { destruct ((if cs_isempty cw then [] else [mkXE true (mkSel [] []) (mkSel [] []) cw]) ++ es) eqn:E; inversion Hd; subst d; reflexivity. }
  assert (Hoksel : forallb netpol_okb sel = true) by (rewrite Hsel; apply forallb_filter; exact Hok).
  assert (Haff : np_affects np (dir_of ingress) = true).
  { unfold s_np_governs in Hgov. apply andb_true_iff in Hgov. destruct Hgov as [Hgov _]. apply andb_true_iff in Hgov.
    rewrite np_affects_spec. apply Hgov. }
  (* the entire-cluster entry covers a point of the entire-cluster connection *)
  assert (Hcluster : cs_denote cw pr n = true ->
            exists e, In e (xd_entries d) /\
                      (xe_cluster e = true \/ (sel_matches_raw (xe_nssel e) hnsl = true /\ sel_matches_raw (xe_podsel e) (p_labels hp) = true)) /\
                      cs_denote (xe_conn e) pr n = true).
  { intros Hcw. exists (mkXE true (mkSel [] []) (mkSel [] []) cw). rewrite Hde. split; [|split; [left; reflexivity|exact Hcw]].
    apply in_or_app. left. destruct (cs_isempty cw) eqn:Eemp; [rewrite (cs_isempty_denote cw pr n Eemp) in Hcw; discriminate Hcw|left; reflexivity]. }
  destruct (opens rl) eqn:Eop.
  - left. apply Hcluster. apply (cluster_wide_complete sel p nsl ingress np rl pr n Hoksel Hp Hnpsel Haff Hrl Eop Hpm Hv).
  - pose proof (rule_pair_collected np ingress rl nss pods Haff Hrl Eop Hpe) as Hpair.
    destruct (gen_reps_ok (w_nps w) [] reps0 Hgen) as (_ & Cov & Orig).
    destruct (Cov np (nss, pods) Hnp Hpair) as (Vrule & r0 & Hr0 & Hkey).
    assert (Vr0 : rep_valid r0 = true).
    { destruct (Orig r0 Hr0) as [[]|(np' & sp' & Hnp' & Hsp' & He)]. subst r0. apply (Cov np' sp' Hnp' Hsp'). }
    destruct (matching_rep (np_ns np) nss pods r0 hp hnsl Vrule Vr0 Hkey Hmatch Hname) as [Hsat Hselects].
    destruct (keep r0) eqn:Ekeep; [|right; exists r0; repeat split; try assumption; apply Hsat].
    left. assert (Hr0in : In r0 (filter keep reps0)) by (apply filter_In; split; assumption).
    destruct (rep_entries_cover w p nsl cw ingress _ es r0 Ees Hr0in) as (c & Hc & Hcov).
    (* the rule's point is in c *)
    assert (Hcden : cs_denote c pr n = true /\ cs_wf c).
    { unfold conns_with_rep in Hc. change (if ingress then Ingress else Egress) with (dir_of ingress) in Hc. rewrite Hs in Hc. cbn [bind] in Hc.
      fold sel in Hc.
      destruct (nps_union_rep sel r0 (PPod p nsl) ingress (cs_make false)) as [c'|er] eqn:Hu; cbn [bind] in Hc; [|discriminate Hc].
      destruct (nps_union_rep_sound sel r0 (PPod p nsl) ingress hp hnsl _ _ Hoksel Hp Hsat (cs_make_wf false) Hu) as [Hcw' _].
      destruct (nps_union_rep_complete sel r0 (PPod p nsl) ingress hp hnsl _ _ Hoksel Hp Hsat (cs_make_wf false) Hu) as [_ Hcomp].
      destruct (nps_union_rep_all_ok _ _ _ _ _ _ Hu np Hnpsel) as [pc Hpc].
      assert (Hnpok : netpol_okb np = true) by (rewrite forallb_forall in Hok; apply Hok; exact Hnp).
      assert (Hpcd : cs_denote pc pr n = true).
      { apply (policy_conns_rep_complete' np r0 (PPod p nsl) ingress pc rl pr n Hnpok Hp Hpc Hrl); try assumption.
        intros b Hb. unfold rule_selects_rep in Hb. destruct (nr_peers rl) as [|pe0 pt] eqn:Epeers; [destruct Hpe|].
        apply (Hselects (pe0 :: pt) b Hpe Hb). }
      pose proof (Hcomp np pc pr n Hnpsel Hpc Hpcd) as Hc'.
      inversion Hc; subst c. destruct ingress.
      - split.
        + rewrite cs_inter_denote; [|apply cs_make_wf|exact Hcw'|intros _ q; apply cs_get_make].
          rewrite Hc', cs_make_denote, Hv. reflexivity.
        + apply cs_inter_wf; [apply cs_make_wf|exact Hcw'].
      - split; [exact Hc'|exact Hcw']. }
    destruct Hcden as [Hcd Hcwf].
    destruct Hcov as [Hcov|[[Hne Hcont]|Hcov]].
    + rewrite (cs_isempty_denote c pr n Hcov) in Hcd. discriminate Hcd.
    + apply Hcluster. assert (Hcww : cs_wf cw).
      { unfold cw, cluster_wide.
        refine (proj1 (fold_union_ok _ sel (cs_make false) (cs_make_wf false) _)).
        intros x Hx. rewrite forallb_forall in Hoksel. destruct (scan_dir_ok x ingress (Hoksel x Hx)) as (_ & W2 & _). cbn zeta.
        change (if ingress then Ingress else Egress) with (dir_of ingress).
        destruct ingress; [apply convert_named_ok; assumption|exact W2]. }
      apply (cs_containedin_sound c cw Hcwf Hcww Hcont pr n Hcd).
    + exists (mkXE false (rp_nssel r0) (osel_or_empty (rp_podsel r0)) c). rewrite Hde. split; [apply in_or_app; right; exact Hcov|].
      cbn [xe_cluster xe_nssel xe_podsel xe_conn]. split; [|exact Hcd]. right. destruct Hsat as (S1 & S2 & _).
      split; [exact S1|rewrite osel_or_empty_matches; exact S2].
Qed.

(* the refinement: a representative peer is dropped only when it is made of label equalities alone, on both the namespace
   and the pod side, and an existing workload satisfies them *)
Theorem refined_only_by_existing_workload w os r :
  In r (refine_reps w os (r :: nil)) \/
  exists pod_labels ns, In (pod_labels, ns) (flat_map trigger_of os) /\
    exists ps, rp_podsel r = Some ps /\ s_exprs ps = [] /\ s_exprs (rp_nssel r) = [] /\ s_match ps <> [] /\ s_match (rp_nssel r) <> [] /\
               labels_sub (s_match ps) pod_labels = true /\ labels_sub (s_match (rp_nssel r)) (ns_labels_of w ns) = true.
Proof.
  unfold refine_reps. cbn [filter].
  destruct (existsb (fun t => rep_refined_by (fst t) (ns_labels_of w (snd t)) r) (flat_map trigger_of os)) eqn:E; cbn [negb].
  - right. apply existsb_exists in E. destruct E as ([pl ns] & Hin & Href). exists pl, ns. split; [exact Hin|].
    cbn [fst snd] in Href. unfold rep_refined_by in Href. destruct (rp_podsel r) as [ps|]; [|discriminate Href].
    exists ps. split; [reflexivity|].
    destruct (s_exprs ps); [|discriminate Href]. destruct (s_exprs (rp_nssel r)); [|discriminate Href].
    destruct (s_match (rp_nssel r)) as [|a b] eqn:E1; [discriminate Href|]. destruct (s_match ps) as [|a' b'] eqn:E2; [discriminate Href|].
    apply andb_true_iff in Href. destruct Href as [H1 H2].
    split; [reflexivity|]. split; [reflexivity|]. split; [discriminate|]. split; [discriminate|]. split; assumption.
  - left. left. reflexivity.
Qed.
