(* SpecProofs.v — algebraic laws of the NetworkPolicy-only semantics (Model/Spec.v): additivity,
   locality and equivalence of spellings (C14).  They transfer to the computed reports through
   Proofs/EvalProofs.v (all_conns_ok / C01).  No axioms. *)
From Coq Require Import List ZArith Bool String Lia ZifyBool.
From NP Require Import IntervalSet IntervalSetProofs ConnSet World Spec.
Import ListNotations.
Open Scope list_scope.
Open Scope Z_scope.

Definition with_nps (w : world) (nps : list netpol) : world :=
  mkWorld (w_nss w) (w_pods w) nps (w_anps w) (w_banp w).

Definition ble (a b : bool) : Prop := a = true -> b = true.

Lemma existsb_mono {A} (f g : A -> bool) l : (forall x, ble (f x) (g x)) -> ble (existsb f l) (existsb g l).
Proof.
  intros H. induction l as [|a t IH]; cbn [existsb]; intros E; [discriminate|].
  apply orb_true_iff in E. apply orb_true_iff. destruct E as [E | E]; [left; apply H; exact E | right; apply IH; exact E].
Qed.

(* ---------- adding a rule ---------- *)
Definition add_rule (np : netpol) (ingress : bool) (k : nat) (r : np_rule) : netpol :=
  if ingress
  then mkNetpol (np_ns np) (np_name np) (np_sel np) (np_types np) (firstn k (np_in np) ++ r :: skipn k (np_in np)) (np_eg np)
  else mkNetpol (np_ns np) (np_name np) (np_sel np) (np_types np) (np_in np) (firstn k (np_eg np) ++ r :: skipn k (np_eg np)).

Lemma existsb_insert {A} (f : A -> bool) l k x :
  existsb f (firstn k l ++ x :: skipn k l) = f x || existsb f l.
Proof.
  assert (E : existsb f l = existsb f (firstn k l) || existsb f (skipn k l))
    by (rewrite <- existsb_app, firstn_skipn; reflexivity).
  rewrite E, existsb_app. cbn [existsb].
  destruct (existsb f (firstn k l)), (f x), (existsb f (skipn k l)); reflexivity.
Qed.

Lemma add_rule_policy_mono np ing k r src dst d pr n :
  ble (s_np_policy_allows np src dst d pr n) (s_np_policy_allows (add_rule np ing k r) src dst d pr n).
Proof.
  unfold ble, s_np_policy_allows, add_rule. destruct ing, d; cbn [np_in np_eg np_ns]; try (intros H; exact H);
    rewrite existsb_insert; intros ->; apply orb_true_r.
Qed.

(* the direction was already governed: the set of pods the policy governs does not change *)
Lemma add_rule_affects np (ing : bool) k r d :
  s_np_affects np (if ing then Ingress else Egress) = true ->
  s_np_affects (add_rule np ing k r) d = s_np_affects np d.
Proof.
  intros Ha. unfold s_np_affects, add_rule in *. destruct ing; cbn [np_types np_eg] in *; [reflexivity|].
  destruct (np_types np); [|reflexivity]. destruct d; [reflexivity|].
  destruct (np_eg np) eqn:E; [discriminate|]. destruct (firstn k (n :: l)); reflexivity.
Qed.

Lemma add_rule_governs np (ing : bool) k r p d :
  s_np_affects np (if ing then Ingress else Egress) = true ->
  s_np_governs (add_rule np ing k r) p d = s_np_governs np p d.
Proof.
  intros Ha. unfold s_np_governs. rewrite (add_rule_affects np ing k r d Ha).
  unfold add_rule. destruct ing; reflexivity.
Qed.

Lemma layer_mono (w : world) nps nps' src dst (ing : bool) pr n :
  (forall p d, map (fun np => s_np_governs np p d) nps' = map (fun np => s_np_governs np p d) nps) ->
  Forall2 (fun a b => forall s t d, ble (s_np_policy_allows a s t d pr n) (s_np_policy_allows b s t d pr n)) nps nps' ->
  match s_np_layer (with_nps w nps) src dst ing pr n, s_np_layer (with_nps w nps') src dst ing pr n with
  | None, None => True
  | Some a, Some b => ble a b
  | _, _ => False
  end.
Proof.
  intros Hg Hm. unfold s_np_layer, with_nps. cbn [w_nps].
  destruct (if ing then dst else src) as [p nsl|]; [|exact I].
  set (d := if ing then Ingress else Egress).
  specialize (Hg p d). clear - Hg Hm.
  revert nps' Hg Hm. induction nps as [|a t IH]; intros nps' Hg Hm; inversion Hm; subst; [exact I|].
  cbn [map] in Hg. inversion Hg as [[Hh Ht]]. cbn [filter]. rewrite Hh.
  specialize (IH _ Ht H3).
  destruct (s_np_governs a p d).
  - cbn [existsb].
    destruct (filter (fun np => s_np_governs np p d) t) eqn:E1, (filter (fun np => s_np_governs np p d) l') eqn:E2;
      cbn [existsb] in *; try contradiction.
    + unfold ble. rewrite !orb_false_r. apply H1.
    + unfold ble in *. intros H. apply orb_true_iff in H. apply orb_true_iff. destruct H as [H | H]; [left; apply H1; exact H | right; apply IH; exact H].
  - exact IH.
Qed.

Theorem add_rule_monotone w a np b (ing : bool) k r src dst pr n :
  s_np_affects np (if ing then Ingress else Egress) = true ->
  ble (s_np_only_allows (with_nps w (a ++ np :: b)) src dst pr n)
      (s_np_only_allows (with_nps w (a ++ add_rule np ing k r :: b)) src dst pr n).
Proof.
  intros Ha. unfold ble, s_np_only_allows, s_np_only_dir. intros H. apply andb_true_iff in H. destruct H as [H1 H2].
  assert (L : forall d, match s_np_layer (with_nps w (a ++ np :: b)) src dst d pr n,
                              s_np_layer (with_nps w (a ++ add_rule np ing k r :: b)) src dst d pr n with
                        | None, None => True | Some x, Some y => ble x y | _, _ => False end).
  { intros d. apply layer_mono.
    - intros p dd. rewrite !map_app. cbn [map]. rewrite add_rule_governs by exact Ha. reflexivity.
    - apply Forall2_app; [|constructor].
      + clear. induction a; constructor; [intros; intros E; exact E | assumption].
      + intros s t dd. apply add_rule_policy_mono.
      + clear. induction b; constructor; [intros; intros E; exact E | assumption]. }
  apply andb_true_iff. split.
  - specialize (L false). destruct (s_np_layer (with_nps w (a ++ np :: b)) src dst false pr n),
      (s_np_layer (with_nps w (a ++ add_rule np ing k r :: b)) src dst false pr n); try contradiction; [apply L; exact H1 | reflexivity].
  - specialize (L true). destruct (s_np_layer (with_nps w (a ++ np :: b)) src dst true pr n),
      (s_np_layer (with_nps w (a ++ add_rule np ing k r :: b)) src dst true pr n); try contradiction; [apply L; exact H2 | reflexivity].
Qed.

(* ---------- adding a policy ---------- *)
Definition self_pod (x : peer) : option pod := match x with PPod p _ => Some p | PIP _ => None end.

Lemma layer_add_policy w q src dst (ing : bool) pr n :
  let d := if ing then Ingress else Egress in
  let self := if ing then dst else src in
  s_np_layer (with_nps w (q :: w_nps w)) src dst ing pr n =
  match self with
  | PIP _ => None
  | PPod p _ =>
      if s_np_governs q p d
      then Some (s_np_policy_allows q src dst ing pr n ||
                 match s_np_layer w src dst ing pr n with Some b => b | None => false end)
      else s_np_layer w src dst ing pr n
  end.
Proof.
  cbn zeta. unfold s_np_layer, with_nps. cbn [w_nps].
  destruct (if ing then dst else src) as [p nsl|]; [|reflexivity].
  cbn [filter]. destruct (s_np_governs q p (if ing then Ingress else Egress)); [|reflexivity].
  cbn [existsb]. destruct (filter _ (w_nps w)); reflexivity.
Qed.

(* a policy whose selected pods were all already governed in the directions it governs never removes *)
Theorem add_policy_on_governed_monotone w q src dst pr n :
  (forall p d, s_np_governs q p d = true -> existsb (fun np => s_np_governs np p d) (w_nps w) = true) ->
  ble (s_np_only_allows w src dst pr n) (s_np_only_allows (with_nps w (q :: w_nps w)) src dst pr n).
Proof.
  intros Hgov. unfold ble, s_np_only_allows, s_np_only_dir. intros H. apply andb_true_iff in H. destruct H as [H1 H2].
  assert (L : forall ing, match s_np_layer w src dst ing pr n with Some b => b | None => true end = true ->
                          match s_np_layer (with_nps w (q :: w_nps w)) src dst ing pr n with Some b => b | None => true end = true).
  { intros ing Hb. rewrite layer_add_policy. cbn zeta.
    destruct (if ing then dst else src) as [p nsl|] eqn:Es; [|reflexivity].
    destruct (s_np_governs q p (if ing then Ingress else Egress)) eqn:Eg; [|exact Hb].
    specialize (Hgov p _ Eg).
    unfold s_np_layer in *. rewrite Es in *.
    destruct (filter (fun np => s_np_governs np p (if ing then Ingress else Egress)) (w_nps w)) eqn:Ef.
    - exfalso. apply existsb_exists in Hgov. destruct Hgov as (np & Hin & Hnp).
      assert (In np (filter (fun np => s_np_governs np p (if ing then Ingress else Egress)) (w_nps w))) by (apply filter_In; auto).
      rewrite Ef in H. contradiction.
    - rewrite Hb. apply orb_true_r. }
  apply andb_true_iff. split; [apply (L false); exact H1 | apply (L true); exact H2].
Qed.

(* a policy whose selected pods were all ungoverned in the directions it governs never adds *)
Theorem add_policy_on_ungoverned_antitone w q src dst pr n :
  (forall p d, s_np_governs q p d = true -> existsb (fun np => s_np_governs np p d) (w_nps w) = false) ->
  ble (s_np_only_allows (with_nps w (q :: w_nps w)) src dst pr n) (s_np_only_allows w src dst pr n).
Proof.
  intros Hgov. unfold ble, s_np_only_allows, s_np_only_dir. intros H. apply andb_true_iff in H. destruct H as [H1 H2].
  assert (L : forall ing, match s_np_layer (with_nps w (q :: w_nps w)) src dst ing pr n with Some b => b | None => true end = true ->
                          match s_np_layer w src dst ing pr n with Some b => b | None => true end = true).
  { intros ing Hb. rewrite layer_add_policy in Hb. cbn zeta in Hb.
    unfold s_np_layer in *.
    destruct (if ing then dst else src) as [p nsl|] eqn:Es; [|reflexivity].
    destruct (s_np_governs q p (if ing then Ingress else Egress)) eqn:Eg; [|exact Hb].
    specialize (Hgov p _ Eg).
    destruct (filter (fun np => s_np_governs np p (if ing then Ingress else Egress)) (w_nps w)) as [|np0 t] eqn:Ef; [reflexivity|].
    exfalso. assert (Hin : In np0 (filter (fun np => s_np_governs np p (if ing then Ingress else Egress)) (w_nps w))) by (rewrite Ef; left; reflexivity).
    apply filter_In in Hin. destruct Hin as [Hin Hg].
    rewrite <- not_true_iff_false, existsb_exists in Hgov. apply Hgov. eauto. }
  apply andb_true_iff. split; [apply (L false); exact H1 | apply (L true); exact H2].
Qed.

(* locality: a connection whose source the new policy does not govern for egress and whose
   destination it does not govern for ingress is unchanged *)
Theorem add_policy_local w q src dst pr n :
  (forall p, self_pod src = Some p -> s_np_governs q p Egress = false) ->
  (forall p, self_pod dst = Some p -> s_np_governs q p Ingress = false) ->
  s_np_only_allows (with_nps w (q :: w_nps w)) src dst pr n = s_np_only_allows w src dst pr n.
Proof.
  intros Hs Hd. unfold s_np_only_allows, s_np_only_dir. rewrite !layer_add_policy. cbn zeta.
  destruct src as [ps ls|bs], dst as [pd ld|bd]; cbn [self_pod] in *;
    try rewrite (Hs _ eq_refl); try rewrite (Hd _ eq_refl); reflexivity.
Qed.

(* ---------- equivalent spellings ---------- *)
Theorem matchLabels_vs_single_In k v m e l :
  sel_matches_raw (mkSel ((k, v) :: m) e) l = sel_matches_raw (mkSel m (mkReq k OpIn [v] :: e)) l.
Proof.
  unfold sel_matches_raw. cbn [s_match s_exprs forallb fst snd].
  set (fm := forallb _ m). set (fe := forallb _ e).
  unfold req_matches. cbn [r_op r_key r_vals].
  destruct (lookup k l) as [x|]; cbn [str_mem].
  - rewrite orb_false_r. destruct (String.eqb x v), fm, fe; reflexivity.
  - destruct fm, fe; reflexivity.
Qed.

Theorem range_split pr_ a m b dst pr n :
  a <= m < b ->
  s_np_port_matches (mkNpPort pr_ (PNum a) (Some b)) dst pr n =
  s_np_port_matches (mkNpPort pr_ (PNum a) (Some m)) dst pr n || s_np_port_matches (mkNpPort pr_ (PNum (m + 1)) (Some b)) dst pr n.
Proof.
  intros H. unfold s_np_port_matches. cbn [pp_proto pp_port pp_end].
  destruct (proto_eqb pr_ pr); cbn [andb]; [lia | reflexivity].
Qed.

(* a CIDR and its two halves select the same single addresses *)
Theorem cidr_halves lo mid hi a :
  lo <= mid < hi ->
  s_np_peer_matches EmptyString (NPIP (lo, hi) []) (PIP (a, a)) =
  s_np_peer_matches EmptyString (NPIP (lo, mid) []) (PIP (a, a)) || s_np_peer_matches EmptyString (NPIP (mid + 1, hi) []) (PIP (a, a)).
Proof.
  intros H. cbn [s_np_peer_matches]. unfold rule_block, isub. cbn [fold_left].
  assert (E : forall l h, l <= h -> isubset [(a, a)] [(l, h)] = (l <=? a) && (a <=? h)).
  { intros l h Hlh.
    assert (Hc1 : canon [(a, a)]) by (cbn; repeat split; lia).
    pose proof (isubset_spec [(a, a)] [(l, h)] Hc1) as S.
    destruct ((l <=? a) && (a <=? h)) eqn:Hin.
    - apply S. intros x Hx. unfold imem, in_ivl in *. cbn [fst snd] in *. lia.
    - destruct (isubset [(a, a)] [(l, h)]) eqn:Hs; [|reflexivity]. exfalso.
      pose proof (proj1 S eq_refl a) as Hx. unfold imem, in_ivl in Hx. cbn [fst snd] in Hx. lia. }
  rewrite !E by lia. lia.
Qed.

(* one policy vs the same rules split over two policies with the same selector *)
Theorem policy_split_same_selector ns nm nm' sel types i1 i2 e1 e2 src dst d pr n :
  s_np_policy_allows (mkNetpol ns nm sel types (i1 ++ i2) (e1 ++ e2)) src dst d pr n =
  s_np_policy_allows (mkNetpol ns nm sel types i1 e1) src dst d pr n || s_np_policy_allows (mkNetpol ns nm' sel types i2 e2) src dst d pr n.
Proof. unfold s_np_policy_allows. destruct d; cbn [np_in np_eg np_ns]; apply existsb_app. Qed.

(* explicit vs defaulted policyTypes *)
Definition default_types (np : netpol) : list dir :=
  Ingress :: match np_eg np with [] => [] | _ => [Egress] end.
Theorem explicit_vs_default_policyTypes ns nm sel i e d :
  s_np_affects (mkNetpol ns nm sel [] i e) d = s_np_affects (mkNetpol ns nm sel (default_types (mkNetpol ns nm sel [] i e)) i e) d.
Proof. unfold s_np_affects, default_types. cbn [np_types np_eg]. destruct d, e; reflexivity. Qed.
