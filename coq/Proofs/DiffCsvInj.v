(* DiffCsvInj.v — the csv output of `diff` determines the diff too.  The formatter joins the six fields of a line with ';',
   sorts the joined strings and splits them again: the fields hold no ';'.  encoding/csv quotes a field iff it holds a comma or
   a quote: only the printed connections can. *)
From Coq Require Import List ZArith Bool String Ascii Lia Permutation.
From NP Require Import IntervalSet ConnSet IntervalSetProofs ConnSetProofs World Build Connlist Diff Format
     SortGeneric FormatProofs StrInj ConnInj RowInj WfProofs DiffInj.
Import ListNotations.
Open Scope string_scope.

Definition nosemi (ch : ascii) : bool := negb (Ascii.eqb ch ";").
Lemma nosemi_semi : nosemi ";" = false. Proof. reflexivity. Qed.
Lemma conn_nosemi ch : conn_char ch = true -> nosemi ch = true.
Proof. unfold nosemi. destruct (Ascii.eqb_spec ch ";"); [subst; cbn; discriminate|reflexivity]. Qed.

(* split_semi on a ';'-free head *)
Lemma split_semi_head a rest cur :
  all_chars nosemi a = true -> split_semi (a ++ String ";" rest) cur = (cur ++ a) :: split_semi rest EmptyString.
Proof.
  revert cur. induction a as [|c a IH]; intros cur H; cbn [append split_semi].
  - rewrite append_nil_r. reflexivity.
  - cbn in H. apply andb_true_iff in H. destruct H as [H1 H2]. unfold nosemi in H1. apply negb_true_iff in H1. rewrite H1.
    rewrite (IH _ H2). rewrite append_assoc. reflexivity.
Qed.

Lemma split_semi_last a cur : all_chars nosemi a = true -> split_semi a cur = [cur ++ a].
Proof.
  revert cur. induction a as [|c a IH]; intros cur H; cbn [split_semi].
  - rewrite append_nil_r. reflexivity.
  - cbn in H. apply andb_true_iff in H. destruct H as [H1 H2]. unfold nosemi in H1. apply negb_true_iff in H1. rewrite H1.
    rewrite (IH _ H2). rewrite append_assoc. reflexivity.
Qed.

Definition drow_nosemi (r : drow) : Prop :=
  all_chars nosemi (dr_type r) = true /\ all_chars nosemi (dr_src r) = true /\ all_chars nosemi (dr_dst r) = true /\
  all_chars nosemi (dr_c1 r) = true /\ all_chars nosemi (dr_c2 r) = true /\ all_chars nosemi (dr_info r) = true.

Lemma split_key r : drow_nosemi r ->
  split_semi (diff_csv_key r) EmptyString = [dr_type r; dr_src r; dr_dst r; dr_c1 r; dr_c2 r; dr_info r].
Proof.
  intros (H1 & H2 & H3 & H4 & H5 & H6). unfold diff_csv_key. cbn [append].
  rewrite (split_semi_head _ _ _ H1), (split_semi_head _ _ _ H2), (split_semi_head _ _ _ H3), (split_semi_head _ _ _ H4),
          (split_semi_head _ _ _ H5), (split_semi_last _ _ H6). reflexivity.
Qed.

(* ---- one csv line ---- *)
Definition cp (ch : ascii) : bool := not_comma ch && not_quote ch && not_nl ch.
Lemma cp_comma : cp "," = false. Proof. reflexivity. Qed.
Lemma cp_nl : cp nlc = false. Proof. reflexivity. Qed.
Lemma plain_cp ch : plain ch = true -> cp ch = true.
Proof. intros H. unfold cp. rewrite (plain_not_nl ch H). unfold plain in H. rewrite !andb_true_iff in H. unfold not_comma, not_quote. destruct H as [[[_ _] H3] H4]. rewrite H3, H4. reflexivity. Qed.

Lemma cp_plainfield s : all_chars cp s = true -> csv_field s = s.
Proof.
  intros H. unfold csv_field.
  assert (A : has_char "," s = false) by (apply (has_char_none cp); [exact H|reflexivity]).
  assert (B : has_char """" s = false) by (apply (has_char_none cp); [exact H|reflexivity]).
  rewrite A, B. reflexivity.
Qed.

Lemma cs_string_nonempty c : cs_ninv c -> cs_string c <> "".
Proof.
  intros Hn. destruct (cs_all c) eqn:Ac; [unfold cs_string; rewrite Ac; discriminate|].
  destruct (cs_isempty c) eqn:Ec; [unfold cs_string; rewrite Ac, Ec; discriminate|].
  rewrite (cs_string_toks c Hn Ac Ec). destruct (toks_nonempty c Hn Ec Ac) as [_ ([| |] & L)]; intros E; rewrite E in L; discriminate.
Qed.

Lemma no_has_char_all c s : has_char c s = false -> all_chars (fun ch => negb (Ascii.eqb ch c)) s = true.
Proof.
  induction s as [|x s IH]; [reflexivity|]. cbn [has_char all_chars]. intros H. apply orb_false_iff in H. destruct H as [A B].
  rewrite A, (IH B). reflexivity.
Qed.

(* the field of a printed connection, followed by a comma *)
Lemma conn_field_split c c' R R' : cs_ninv c -> cs_ninv c' ->
  csv_field (cs_string c) ++ String "," R = csv_field (cs_string c') ++ String "," R' -> c = c' /\ R = R'.
Proof.
  intros Hc Hc' H.
  pose proof (all_chars_weaken conn_char not_quote _ conn_not_quote (cs_string_chars _ Hc)) as Q1.
  pose proof (all_chars_weaken conn_char not_quote _ conn_not_quote (cs_string_chars _ Hc')) as Q2.
  assert (MIX : forall a b Z, all_chars not_quote b = true -> b <> "" -> String """" a = b ++ Z -> False).
  { intros a b Z Hb Nb E. destruct b as [|x b]; [congruence|]. cbn in E. injection E as E _. subst x. cbn in Hb. discriminate. }
  rewrite (csv_field_conn c Hc), (csv_field_conn c' Hc') in H.
  destruct (has_char "," (cs_string c)) eqn:K1, (has_char "," (cs_string c')) eqn:K2; rewrite ?append_assoc in H; cbn [append] in H.
  - strip H. destruct (split_unique not_quote """" _ _ _ _ not_quote_quote Q1 Q2 H) as [E1 H1]. strip H1.
    apply cs_string_inj in E1; [|assumption|assumption]. split; assumption.
  - exfalso. exact (MIX _ _ _ Q2 (cs_string_nonempty c' Hc') H).
  - exfalso. symmetry in H. exact (MIX _ _ _ Q1 (cs_string_nonempty c Hc) H).
  - pose proof (no_has_char_all "," _ K1) as N1. pose proof (no_has_char_all "," _ K2) as N2.
    change (fun ch : ascii => negb (Ascii.eqb ch ",")) with not_comma in N1, N2.
    destruct (split_unique not_comma "," _ _ _ _ eq_refl N1 N2 H) as [E1 H1].
    apply cs_string_inj in E1; [|assumption|assumption]. split; assumption.
Qed.

Definition dentry_csv_ok (e : dentry) : Prop :=
  dentry_ok e /\ all_chars nosemi (rpeer_str (de_src e)) = true /\ all_chars nosemi (rpeer_str (de_dst e)) = true.

Definition crow (e : dentry) : string :=
  let r := drow_of e in csv_row [dr_type r; dr_src r; dr_dst r; dr_c1 r; dr_c2 r; dr_info r].

Lemma dtype_cp t : all_chars cp (dtype_str t) = true. Proof. destruct t; reflexivity. Qed.

Lemma info_cp e : dentry_ok e -> all_chars cp (dr_info (drow_of e)) = true.
Proof.
  intros (S1 & D1 & _). unfold drow_of. cbn [dr_info]. unfold diff_info.
  pose proof (all_chars_weaken plain cp _ plain_cp (rpeer_str_plain _ (proj1 S1))) as PS.
  pose proof (all_chars_weaken plain cp _ plain_cp (rpeer_str_plain _ (proj1 D1))) as PD.
  destruct (de_src_flag e), (de_dst_flag e); cbn [orb andb]; try reflexivity;
    rewrite !all_chars_app, ?PS, ?PD, ?dtype_cp; reflexivity.
Qed.

Lemma drow_ext r r' :
  dr_type r = dr_type r' -> dr_src r = dr_src r' -> dr_dst r = dr_dst r' -> dr_c1 r = dr_c1 r' -> dr_c2 r = dr_c2 r' -> dr_info r = dr_info r' -> r = r'.
Proof. destruct r, r'; cbn; intros; subst; reflexivity. Qed.

Lemma crow_prefix e e' X X' : dentry_ok e -> dentry_ok e' -> crow e ++ X = crow e' ++ X' -> e = e' /\ X = X'.
Proof.
  intros He He' H.
  pose proof He as (S1 & D1 & N1 & C1 & C1' & A1 & R1). pose proof He' as (S2 & D2 & N2 & C2 & C2' & A2 & R2).
  pose proof (all_chars_weaken plain cp _ plain_cp (rpeer_str_plain _ (proj1 S1))) as PS1.
  pose proof (all_chars_weaken plain cp _ plain_cp (rpeer_str_plain _ (proj1 D1))) as PD1.
  pose proof (all_chars_weaken plain cp _ plain_cp (rpeer_str_plain _ (proj1 S2))) as PS2.
  pose proof (all_chars_weaken plain cp _ plain_cp (rpeer_str_plain _ (proj1 D2))) as PD2.
  assert (N1s : cs_ninv (side1 e)) by (unfold side1; destruct (de_type e); try exact C1; exact ninv_empty).
  assert (N2s : cs_ninv (side2 e)) by (unfold side2; destruct (de_type e); try exact C1'; exact ninv_empty).
  assert (N1s' : cs_ninv (side1 e')) by (unfold side1; destruct (de_type e'); try exact C2; exact ninv_empty).
  assert (N2s' : cs_ninv (side2 e')) by (unfold side2; destruct (de_type e'); try exact C2'; exact ninv_empty).
  unfold crow, csv_row in H. cbn [map] in H. rewrite !dr_c1_is, !dr_c2_is in H.
  assert (Ft : forall x, csv_field (dr_type (drow_of x)) = dr_type (drow_of x)) by (intros x; apply cp_plainfield; apply dtype_cp).
  rewrite !Ft in H.
  assert (Fs : csv_field (dr_src (drow_of e)) = dr_src (drow_of e)) by (apply cp_plainfield; exact PS1).
  assert (Fd : csv_field (dr_dst (drow_of e)) = dr_dst (drow_of e)) by (apply cp_plainfield; exact PD1).
  assert (Fs' : csv_field (dr_src (drow_of e')) = dr_src (drow_of e')) by (apply cp_plainfield; exact PS2).
  assert (Fd' : csv_field (dr_dst (drow_of e')) = dr_dst (drow_of e')) by (apply cp_plainfield; exact PD2).
  assert (Fi : csv_field (dr_info (drow_of e)) = dr_info (drow_of e)) by (apply cp_plainfield; apply info_cp; exact He).
  assert (Fi' : csv_field (dr_info (drow_of e')) = dr_info (drow_of e')) by (apply cp_plainfield; apply info_cp; exact He').
  rewrite Fs, Fd, Fs', Fd', Fi, Fi' in H.
  rewrite !join_cons in H. cbn [join] in H. rewrite !append_assoc in H. unfold nl in H. cbn [append] in H.
  destruct (split_unique cp "," _ _ _ _ cp_comma (dtype_cp _) (dtype_cp _) H) as [E1 H1].
  destruct (split_unique cp "," _ _ _ _ cp_comma PS1 PS2 H1) as [E2 H2].
  destruct (split_unique cp "," _ _ _ _ cp_comma PD1 PD2 H2) as [E3 H3].
  destruct (conn_field_split _ _ _ _ N1s N1s' H3) as [E4 H4].
  destruct (conn_field_split _ _ _ _ N2s N2s' H4) as [E5 H5].
  destruct (split_unique cp nlc _ _ _ _ cp_nl (info_cp e He) (info_cp e' He') H5) as [E6 E7].
  split; [|exact E7]. apply drow_of_inj; [exact He|exact He'|].
  apply drow_ext; [exact E1|exact E2|exact E3| rewrite !dr_c1_is, E4; reflexivity | rewrite !dr_c2_is, E5; reflexivity | exact E6].
Qed.

Lemma drow_nosemi_of e : dentry_csv_ok e -> drow_nosemi (drow_of e).
Proof.
  intros ((S1 & D1 & N1 & C1 & C1' & A1 & R1) & Ss & Sd).
  assert (CS : forall c, cs_ninv c -> all_chars nosemi (cs_string c) = true).
  { intros c Hc. exact (all_chars_weaken conn_char nosemi _ conn_nosemi (cs_string_chars c Hc)). }
  unfold drow_nosemi. repeat split.
  - unfold drow_of. cbn [dr_type]. destruct (de_type e); reflexivity.
  - exact Ss.
  - exact Sd.
  - rewrite dr_c1_is. apply CS. unfold side1. destruct (de_type e); try exact C1; exact ninv_empty.
  - rewrite dr_c2_is. apply CS. unfold side2. destruct (de_type e); try exact C1'; exact ninv_empty.
  - unfold drow_of. cbn [dr_info]. unfold diff_info.
    destruct (de_src_flag e), (de_dst_flag e); cbn [orb andb]; try reflexivity;
      rewrite !all_chars_app, ?Ss, ?Sd; destruct (de_type e); reflexivity.
Qed.

Definition keyf (e : dentry) : string := diff_csv_key (drow_of e).
Definition krow (l : string) : string := csv_row (split_semi l EmptyString).

Lemma krow_key e : dentry_csv_ok e -> krow (keyf e) = crow e.
Proof. intros H. unfold krow, keyf, crow. rewrite (split_key _ (drow_nosemi_of e H)). reflexivity. Qed.

Definition csv_body (lines : list string) : string := fold_right (fun l acc => krow l ++ acc) EmptyString lines.

Lemma crow_nonempty e : crow e <> "".
Proof.
  unfold crow, csv_row, nl. intros E. apply (f_equal String.length) in E. rewrite length_append in E. cbn in E. lia.
Qed.

Lemma csv_body_inj L L' :
  Forall (fun l => exists e, dentry_csv_ok e /\ l = keyf e) L -> Forall (fun l => exists e, dentry_csv_ok e /\ l = keyf e) L' ->
  csv_body L = csv_body L' -> L = L'.
Proof.
  revert L'. induction L as [|l L IH]; intros [|l' L'] HL HL' H; cbn [csv_body fold_right] in H.
  - reflexivity.
  - exfalso. inversion HL' as [|? ? (e & Ok & ->) _]; subst. rewrite (krow_key e Ok) in H. pose proof (crow_nonempty e).
    destruct (crow e); [congruence|discriminate].
  - exfalso. inversion HL as [|? ? (e & Ok & ->) _]; subst. rewrite (krow_key e Ok) in H. pose proof (crow_nonempty e).
    destruct (crow e); [congruence|discriminate].
  - inversion HL as [|? ? (e & Ok & ->) HL2]; subst. inversion HL' as [|? ? (e' & Ok' & ->) HL2']; subst.
    rewrite (krow_key e Ok), (krow_key e' Ok') in H.
    destruct (crow_prefix e e' _ _ (proj1 Ok) (proj1 Ok') H) as [-> E]. f_equal. apply IH; assumption.
Qed.

Theorem diff_csv_inj d d' :
  Forall dentry_csv_ok d -> Forall dentry_csv_ok d' -> diff_csv d = diff_csv d' ->
  Permutation (filter changedb d) (filter changedb d').
Proof.
  intros Hd Hd' H. unfold diff_csv in H.
  assert (Z : forall q, diff_is_empty q = true -> filter changedb q = []).
  { intros q Hq. unfold diff_is_empty in Hq. rewrite forallb_forall in Hq. induction q as [|e t IH]; [reflexivity|].
    cbn [filter]. unfold changedb at 1. rewrite (Hq e (or_introl eq_refl)). cbn [negb]. apply IH. intros x Hx. apply Hq. right. exact Hx. }
  destruct (diff_is_empty d) eqn:E, (diff_is_empty d') eqn:E'.
  - rewrite (Z d E), (Z d' E'). constructor.
  - exfalso. unfold csv_row, nl in H. cbn in H. discriminate.
  - exfalso. unfold csv_row, nl in H. cbn in H. discriminate.
  - apply append_inj_l in H.
    assert (G : forall q, Forall dentry_csv_ok q -> Forall (fun l => exists e, dentry_csv_ok e /\ l = keyf e) (diff_lines diff_csv_key q)).
    { intros q Hq. apply Forall_forall. intros s Hs. apply (Permutation_in s (diff_lines_perm diff_csv_key q)) in Hs.
      apply in_map_iff in Hs. destruct Hs as (e & <- & He). apply filter_In in He. rewrite Forall_forall in Hq.
      exists e. split; [exact (Hq e (proj1 He))|reflexivity]. }
    change (csv_body (diff_lines diff_csv_key d) = csv_body (diff_lines diff_csv_key d')) in H.
    apply csv_body_inj in H; [|apply G; exact Hd|apply G; exact Hd'].
    assert (FO : forall q, Forall dentry_csv_ok q -> Forall dentry_csv_ok (filter changedb q)).
    { intros q Hq. rewrite Forall_forall in *. intros e He. apply filter_In in He. exact (Hq e (proj1 He)). }
    apply (perm_map_inj_on keyf dentry_csv_ok); [|exact (FO d Hd)|exact (FO d' Hd')|].
    + intros a b Ha Hb Hab. apply drow_of_inj; [exact (proj1 Ha)|exact (proj1 Hb)|].
      pose proof (split_key _ (drow_nosemi_of a Ha)) as Ka. pose proof (split_key _ (drow_nosemi_of b Hb)) as Kb.
      unfold keyf in Hab. rewrite Hab in Ka. rewrite Ka in Kb. injection Kb as K1 K2 K3 K4 K5 K6. apply drow_ext; assumption.
    + eapply Permutation_trans; [apply Permutation_sym; apply (diff_lines_perm diff_csv_key)|]. rewrite H. apply (diff_lines_perm diff_csv_key).
Qed.

(* decidable form, evaluated by the check on every implementation result (it implies dentry_printableb) *)
Definition dentry_csv_printableb (e : dentry) : bool :=
  dentry_printableb e && all_chars nosemi (rpeer_str (de_src e)) && all_chars nosemi (rpeer_str (de_dst e)).

Lemma dentry_csv_printableb_spec e : dentry_csv_printableb e = true -> dentry_csv_ok e.
Proof.
  unfold dentry_csv_printableb, dentry_csv_ok. rewrite !andb_true_iff. intros [[H1 H2] H3].
  split; [apply dentry_printableb_spec; exact H1|]. split; assumption.
Qed.

Lemma dentries_csv_printable d : forallb dentry_csv_printableb d = true -> Forall dentry_csv_ok d.
Proof. intros H. apply Forall_forall. intros e He. apply dentry_csv_printableb_spec. rewrite forallb_forall in H. exact (H e He). Qed.

Definition dcsv_printable_mismatches (cs : list dfmt_case) : list (nat * nat) :=
  flat_map (fun c => if forallb dentry_csv_printableb (df_diff c) then [] else [(df_id c, 5%nat)]) cs.
