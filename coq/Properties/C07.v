(* C07 — exposure analysis is complete: no potential connection is unreported.
   Statements only; proofs in Proofs/ExposureProofs.v, on Model/Exposure.v.
   [reps0] are the representative peers generated from all policies (gen_reps), [keep] the refinement filter
   (Exposure.refine_reps is [filter keep] with keep r = no existing workload satisfies r's label equalities), and [d] the
   data reported for workload [p] in one direction.  A hypothetical pod is any [PPod hp hnsl] whose namespace labels carry the
   automatic name label of its namespace.
   [pmatch W ingress rl pr n]: the rule's ports match the point - for ingress with the rule's named ports resolved on the
   workload (the full NetworkPolicy semantics); for egress the numbered ports of the rule.  The named ports of egress rules are
   the second theorem: for a pod declaring nm -> (q, n), [name_covered c q nm n] says the entry's connection holds the number n
   on protocol q or stores the name nm (which C06 reads as "that name as declared by the hypothetical pod"). *)
From Coq Require Import List ZArith Bool String.
From NP Require Import IntervalSet ConnSet ConnSetProofs World Eval Spec EvalProofs Build Connlist Exposure ExposureProofs ExposureNames.
Import ListNotations.
Open Scope Z_scope.

(* every rule of a policy governing the workload that matches the hypothetical pod is covered by the entire-cluster entry or by
   a reported entry whose selectors the pod satisfies - or its representative peer was refined away *)
Theorem C07_governing_rule_is_reported w reps0 keep p nsl ingress d np rl nss pods hp hnsl pr n :
  forallb netpol_okb (w_nps w) = true -> pod_okb p = true ->
  gen_reps (w_nps w) [] = Ok reps0 ->
  dir_data w p nsl ingress (filter keep reps0) = Ok (Some d) ->
  In np (w_nps w) -> s_np_governs np p (dir_of ingress) = true ->
  In rl (dir_rules np ingress) -> In (NPSel nss pods) (nr_peers rl) ->
  s_np_peer_matches (np_ns np) (NPSel nss pods) (PPod hp hnsl) = true ->
  lookup K8sNsNameLabelKey hnsl = Some (p_ns hp) ->
  pmatch (PPod p nsl) ingress rl pr n = true -> valid_port n = true ->
  (exists e, In e (xd_entries d) /\
             (xe_cluster e = true \/
              (sel_matches_raw (xe_nssel e) hnsl = true /\ sel_matches_raw (xe_podsel e) (p_labels hp) = true)) /\
             cs_denote (xe_conn e) pr n = true) \/
  (exists r0, In r0 reps0 /\ keep r0 = false /\ satisfies hp hnsl r0 /\
              rep_key_eqb (rep_of (np_ns np) (nss, pods)) r0 = true).
Proof. exact (governing_rule_is_reported w reps0 keep p nsl ingress d np rl nss pods hp hnsl pr n). Qed.
Print Assumptions C07_governing_rule_is_reported.

(* the same for the named ports of egress rules *)
Theorem C07_governing_rule_named_port_is_reported w reps0 keep p nsl d np rl nss pods hp hnsl q nm n :
  forallb netpol_okb (w_nps w) = true -> pod_okb p = true ->
  gen_reps (w_nps w) [] = Ok reps0 ->
  dir_data w p nsl false (filter keep reps0) = Ok (Some d) ->
  In np (w_nps w) -> s_np_governs np p Egress = true ->
  In rl (np_eg np) -> In (NPSel nss pods) (nr_peers rl) ->
  s_np_peer_matches (np_ns np) (NPSel nss pods) (PPod hp hnsl) = true ->
  lookup K8sNsNameLabelKey hnsl = Some (p_ns hp) ->
  named_rule_ports (nr_ports rl) q nm = true -> valid_port n = true ->
  (exists e, In e (xd_entries d) /\
             (xe_cluster e = true \/
              (sel_matches_raw (xe_nssel e) hnsl = true /\ sel_matches_raw (xe_podsel e) (p_labels hp) = true)) /\
             name_covered (xe_conn e) q nm n = true) \/
  (exists r0, In r0 reps0 /\ keep r0 = false /\ satisfies hp hnsl r0 /\
              rep_key_eqb (rep_of (np_ns np) (nss, pods)) r0 = true).
Proof. exact (governing_rule_named_port_is_reported w reps0 keep p nsl d np rl nss pods hp hnsl q nm n). Qed.
Print Assumptions C07_governing_rule_named_port_is_reported.

(* the documented omission, exactly: a representative peer is dropped only if its selectors consist solely of label
   equalities (non-empty on the pod and on the namespace side) that an existing workload, in a matching namespace, satisfies *)
Theorem C07_refined_only_by_existing_workload w os r :
  In r (refine_reps w os (r :: nil)) \/
  exists pod_labels ns, In (pod_labels, ns) (flat_map trigger_of os) /\
    exists ps, rp_podsel r = Some ps /\ s_exprs ps = [] /\ s_exprs (rp_nssel r) = [] /\ s_match ps <> [] /\ s_match (rp_nssel r) <> [] /\
               labels_sub (s_match ps) pod_labels = true /\ labels_sub (s_match (rp_nssel r)) (ns_labels_of w ns) = true.
Proof. exact (refined_only_by_existing_workload w os r). Qed.
Print Assumptions C07_refined_only_by_existing_workload.

(* every selector pair of every rule that does not open the whole cluster has a representative peer under its key:
   de-duplication never loses a pair *)
Theorem C07_every_selector_pair_has_a_representative nps reps0 np sp :
  gen_reps nps [] = Ok reps0 -> In np nps -> In sp (np_pairs np) ->
  rep_valid (rep_of (np_ns np) sp) = true /\ exists r0, In r0 reps0 /\ rep_key_eqb (rep_of (np_ns np) sp) r0 = true.
Proof. exact (fun H => proj1 (proj2 (gen_reps_ok nps [] reps0 H)) np sp). Qed.
Print Assumptions C07_every_selector_pair_has_a_representative.

(* the peer registered under a rule entry's key stands for every pod the entry matches, and the rule selects it
   (a rule without namespaceSelector included, whichever rule generated the peer) *)
Theorem C07_registered_representative_matches npns nss pods r0 hp hnsl :
  rep_valid (rep_of npns (nss, pods)) = true -> rep_valid r0 = true ->
  rep_key_eqb (rep_of npns (nss, pods)) r0 = true ->
  s_np_peer_matches npns (NPSel nss pods) (PPod hp hnsl) = true ->
  lookup K8sNsNameLabelKey hnsl = Some (p_ns hp) ->
  satisfies hp hnsl r0 /\
  forall peers b, In (NPSel nss pods) peers -> peers_select_rep npns peers r0 = Ok b -> b = true.
Proof. exact (matching_rep npns nss pods r0 hp hnsl). Qed.
Print Assumptions C07_registered_representative_matches.

(* the containment test that suppresses an entry is sound: a suppressed connection is inside the entire-cluster connection *)
Theorem C07_suppressed_entry_is_covered c o :
  cs_wf c -> cs_wf o -> cs_containedin c o = true -> forall p n, cs_denote c p n = true -> cs_denote o p n = true.
Proof. exact (cs_containedin_sound c o). Qed.
Print Assumptions C07_suppressed_entry_is_covered.

(* non-vacuity: two rules naming the same peers by the policy namespace and by its name label, in the order that used to lose one *)
Example C07_example :
  let os := [OWorkload (mkWl "Deployment" "ns1" "w" None [("app", "a")] []);
             ONetpol (mkNetpol "ns1" "p" (mkSel [] []) [Ingress]
                        [mkNpRule [NPSel (Some (mkSel [("kubernetes.io/metadata.name", "ns1")] [])) (Some (mkSel [("app", "x")] []))]
                                  [mkNpPort TCP (PNum 80) None];
                         mkNpRule [NPSel None (Some (mkSel [("app", "x")] []))] [mkNpPort TCP (PNum 81) None]] [])] in
  match exposure_objs os with
  | Ok r => map (fun x => map (fun e => (xe_cluster e, cs_string (xe_conn e))) (xd_entries (xp_in x))) (xr_exposed r)
            = [[(false, "TCP 80-81"%string)]]
  | Err _ => False
  end.
Proof. vm_compute. reflexivity. Qed.
