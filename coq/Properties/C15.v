(* C15 — PolicyEngine answers depend on current objects only, not on update history.
   Statements only; proofs in Proofs/EngineProofs.v.  Model: Model/Engine.v, the engine as a
   state machine [step] over InsertObject / DeleteObject / SetResources / ClearResources /
   CheckIfAllowed with its owner-keyed verdict cache.
   [run_ops s ops]   : the answers the engine gives along the history;
   [run_fresh s ops] : the same history where every query is answered by a cache-less evaluation of
                       the objects the engine holds at that moment ([fresh_answer]).
   [good_run]: at the queries and pod deletions of the history, pods that share namespace, owner and
   labels also share container ports (the engine's own equivalence assumption, cf. the _needed example),
   and the history has no workload objects (the property speaks of pods). *)
From Coq Require Import List ZArith Bool String Permutation.
From NP Require Import IntervalSet ConnSet World Eval EvalPoint Build EvalCase Engine EngineProofs.
Import ListNotations.
Open Scope Z_scope.

(* after ANY finite history, every CheckIfAllowed answer is the fresh answer: results cached before
   an update never leak through it *)
Theorem C15_engine_refines_fresh ops :
  good_run estate0 ops -> run_ops estate0 ops = run_fresh estate0 ops.
Proof. exact (engine_history_independent ops). Qed.
Print Assumptions C15_engine_refines_fresh.

(* the same from any state satisfying the invariant, and the invariant is kept by every operation *)
Theorem C15_step_keeps_invariant s o : Inv2 s -> op_ok s o -> Inv2 (fst (step s o)).
Proof. exact (Inv2_step s o). Qed.
Print Assumptions C15_step_keeps_invariant.

Theorem C15_query_is_fresh s q :
  Inv s -> uniform (query_engine (es_eng s) q) ->
  snd (do_query s q) = fresh_answer s q /\ Inv (fst (do_query s q)).
Proof. exact (do_query_refines_fresh s q). Qed.
Print Assumptions C15_query_is_fresh.

(* admin policies are applied by priority regardless of insertion order: inserting the same
   (distinct-priority) policies in any order leaves the same list to scan *)
Theorem C15_anp_insert_order_irrelevant l1 l2 :
  Permutation l1 l2 -> NoDup (map a_prio l1) -> ins_all l1 = ins_all l2.
Proof. exact (anp_insert_order_irrelevant l1 l2). Qed.
Print Assumptions C15_anp_insert_order_irrelevant.

(* deleting an object that is not present is a no-op, not a crash *)
Theorem C15_delete_absent_pod_noop s ns name :
  find_pod (ns ++ "/" ++ name)%string (e_pods (es_eng s)) = None -> step s (EDelPod ns name) = (s, AUnit).
Proof. intros H. cbn [step]. unfold del_pod. rewrite H. reflexivity. Qed.
Print Assumptions C15_delete_absent_pod_noop.

Theorem C15_delete_absent_banp_noop s name :
  e_banp (es_eng s) = None -> step s (EDelBanp name) = (s, AUnit).
Proof. intros H. cbn [step]. rewrite H. reflexivity. Qed.
Print Assumptions C15_delete_absent_banp_noop.

(* the hypothesis on container ports is needed: two pods of one owner with equal labels but different
   numbers behind a named port share a cache key, and the cached verdict of one is served for the other *)
Example C15_uniformity_needed :
  let pod nm port := mkPodDoc "ns" nm [("app", "a")] [mkCPort "http" port TCP] (Some ("own", "ReplicaSet")) true in
  let cli := mkPodDoc "ns" "c" [("app", "c")] [] (Some ("ownc", "ReplicaSet")) true in
  let np := mkNetpol "ns" "np" (mkSel [("app", "a")] []) [Ingress] [mkNpRule [] [mkNpPort TCP (PName "http") None]] [] in
  let q nm := EQuery (mkQ (QPod "ns/c") (QPod nm) TCP 80) in
  run_ops estate0 [EInsPod (pod "a1" 80); EInsPod (pod "a2" 8080); EInsPod cli; EInsNp np; q "ns/a1"; q "ns/a2"]
  = [AUnit; AUnit; AUnit; AUnit; ABool true; ABool true] /\
  run_fresh estate0 [EInsPod (pod "a1" 80); EInsPod (pod "a2" 8080); EInsPod cli; EInsNp np; q "ns/a1"; q "ns/a2"]
  = [AUnit; AUnit; AUnit; AUnit; ABool true; ABool false].
Proof. vm_compute. split; reflexivity. Qed.
