# /verif setup: builds the Coq development (full .vo) and warms the Go build cache. Offline.
export GOFLAGS=-mod=mod
export GOPROXY=off
export GOSUMDB=off
export GOTOOLCHAIN=local
.PHONY: setup coq clean
setup: coq
	python3 checks/check.py --warm || true
coq:
	python3 -c "import sys; sys.path.insert(0,'.'); from checks.lib import srcfacts; srcfacts.regenerate('/repo','coq/Gen/SrcFacts.v')"
	cd coq && coq_makefile -f _CoqProject -o Makefile.coq && timeout 3000 $(MAKE) -f Makefile.coq -j16
clean:
	cd coq && (test -f Makefile.coq && $(MAKE) -f Makefile.coq cleanall || true); rm -rf build
