(* C11 — connection sets form a correct, canonical set algebra over protocol x port.
   Statements only; proofs are in Proofs/ConnSetProofs.v (model: Model/ConnSet.v, the
   operation-by-operation mirror of connectionset.go / portset.go).
   [cs_denote c p n] is membership of the numeric point (p, n), 1 <= n <= 65535.
   [cs_wf]   : stored port sets are canonical interval lists within 1..65535.
   [cs_ninv] : the canonical-form invariant of name-free sets (what every set reachable through
               MakeConnectionSet / Union / Intersection / Subtract satisfies). *)
From Coq Require Import List ZArith Bool String.
From NP Require Import IntervalSet ConnSet ConnSetProofs FactsPorts SrcFacts.
Import ListNotations.
Open Scope Z_scope.

(* the model's constants are the constants found in /repo on this run *)
Theorem C11_src_constants :
  fact_ok src_minPort minPort /\ fact_ok src_maxPort maxPort /\ fact_ok src_NoPort NoPort /\
  fact_ok src_allConnsStr allConnsStr /\ fact_ok src_noConnsStr noConnsStr.
Proof. exact ports_facts_ok. Qed.
Print Assumptions C11_src_constants.

(* results denote exactly the right set *)
Theorem C11_union_denote c o p n :
  cs_wf c -> cs_wf o -> cs_denote (cs_union c o) p n = cs_denote c p n || cs_denote o p n.
Proof. exact (cs_union_denote c o p n). Qed.
Print Assumptions C11_union_denote.

Theorem C11_intersection_denote c o p n :
  cs_wf c -> cs_wf o -> (cs_all c = true -> forall q, cs_get c q = None) ->
  cs_denote (cs_inter c o) p n = cs_denote c p n && cs_denote o p n.
Proof. exact (cs_inter_denote c o p n). Qed.
Print Assumptions C11_intersection_denote.

Theorem C11_subtract_denote c o p n :
  cs_wf c -> cs_wf o -> cs_denote (cs_subtract c o) p n = cs_denote c p n && negb (cs_denote o p n).
Proof. exact (cs_subtract_denote c o p n). Qed.
Print Assumptions C11_subtract_denote.

Theorem C11_addconnection_denote c p ps q n :
  cs_wf c -> ps_wf ps ->
  cs_denote (cs_addconn c p ps) q n = cs_denote c q n || (proto_eqb p q && imem n (ps_ports ps)).
Proof. exact (cs_addconn_denote c p ps q n). Qed.
Print Assumptions C11_addconnection_denote.

Theorem C11_make_denote all p n : cs_denote (cs_make all) p n = valid_port n && all.
Proof. exact (cs_make_denote all p n). Qed.
Print Assumptions C11_make_denote.

(* containment, equality, emptiness decide the denotation *)
Theorem C11_containedin_sound c o :
  cs_wf c -> cs_wf o -> cs_containedin c o = true ->
  forall p n, cs_denote c p n = true -> cs_denote o p n = true.
Proof. exact (cs_containedin_sound c o). Qed.
Print Assumptions C11_containedin_sound.

Theorem C11_containedin_complete c o :
  cs_ninv c -> cs_ninv o ->
  (forall p n, cs_denote c p n = true -> cs_denote o p n = true) -> cs_containedin c o = true.
Proof. exact (cs_containedin_complete c o). Qed.
Print Assumptions C11_containedin_complete.

Theorem C11_equal_iff_denote c o :
  cs_ninv c -> cs_ninv o ->
  (cs_equal c o = true <-> forall p n, cs_denote c p n = cs_denote o p n).
Proof. exact (cs_equal_iff_denote c o). Qed.
Print Assumptions C11_equal_iff_denote.

Theorem C11_isempty_iff c :
  cs_ninv c -> (cs_isempty c = true <-> forall p n, cs_denote c p n = false).
Proof. exact (cs_isempty_iff c). Qed.
Print Assumptions C11_isempty_iff.

(* canonical form: equal sets are identical values, hence print identically *)
Theorem C11_canonical_unique c o :
  cs_ninv c -> cs_ninv o -> (forall p n, cs_denote c p n = cs_denote o p n) -> c = o.
Proof. exact (cs_ninv_ext c o). Qed.
Print Assumptions C11_canonical_unique.

Theorem C11_equal_sets_print_identically c o :
  cs_ninv c -> cs_ninv o -> (forall p n, cs_denote c p n = cs_denote o p n) ->
  cs_string c = cs_string o.
Proof. exact (cs_string_eq_of_denote c o). Qed.
Print Assumptions C11_equal_sets_print_identically.

(* the full set is recognised as 'All Connections' *)
Theorem C11_allowall_canonical c :
  cs_ninv c -> ((forall p n, valid_port n = true -> cs_denote c p n = true) <-> cs_all c = true).
Proof. exact (cs_allowall_canonical c). Qed.
Print Assumptions C11_allowall_canonical.

(* the invariant is established by the constructors and preserved by every operation:
   by induction every set built from MakeConnectionSet by Union / Intersection / Subtract
   (and by Union with a rule set built by AddConnection calls) is canonical *)
Theorem C11_make_inv all : cs_ninv (cs_make all).
Proof. exact (cs_make_ninv all). Qed.
Print Assumptions C11_make_inv.

Theorem C11_union_inv c o : cs_ninv c -> cs_ninv o -> cs_ninv (cs_union c o).
Proof. exact (cs_union_ninv c o). Qed.
Print Assumptions C11_union_inv.

Theorem C11_intersection_inv c o : cs_ninv c -> cs_ninv o -> cs_ninv (cs_inter c o).
Proof. exact (cs_inter_ninv c o). Qed.
Print Assumptions C11_intersection_inv.

Theorem C11_subtract_inv c o : cs_ninv c -> cs_ninv o -> cs_ninv (cs_subtract c o).
Proof. exact (cs_subtract_ninv c o). Qed.
Print Assumptions C11_subtract_inv.

Theorem C11_addconnection_pre c p ps :
  cs_pre c -> ps_wf ps -> ps_numeric ps -> cs_pre (cs_addconn c p ps).
Proof. exact (cs_addconn_pre c p ps). Qed.
Print Assumptions C11_addconnection_pre.

Theorem C11_union_with_rule_set_inv c o : cs_ninv c -> cs_pre o -> cs_ninv (cs_union c o).
Proof. exact (cs_union_pre_ninv c o). Qed.
Print Assumptions C11_union_with_rule_set_inv.

(* copying yields an equal value (aliasing is a runtime notion: checked on the Go side) *)
Theorem C11_copy_eq c : cs_copy c = c.
Proof. exact (cs_copy_eq c). Qed.
Print Assumptions C11_copy_eq.

(* the finding recorded for the unchanged code: Intersection with a receiver that carries a
   stale protocol entry under AllowAll=true (reachable only through AddConnection on an
   AllowAll set) does not denote the intersection *)
Theorem C11_intersection_stale_refuted :
  let c := mkCS true (Some (mkPS [(80, 80)] [] [])) None None in
  let o := mkCS false None (Some (mkPS [(53, 53)] [] [])) None in
  cs_wf c /\ cs_wf o /\
  cs_denote (cs_inter c o) TCP 80 = true /\ cs_denote c TCP 80 && cs_denote o TCP 80 = false.
Proof. exact cs_inter_denote_stale_refuted. Qed.
Print Assumptions C11_intersection_stale_refuted.
