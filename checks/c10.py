# C10 — ingress-controller lines follow Ingress/Route -> Service -> workload + policies.
# Random worlds with Services, k8s Ingresses and OpenShift Routes are analysed by the real `list`
# and by the Gallina model Model/Ingress.v (list_objs_ing); the whole report (all lines including the
# {ingress-controller} ones, peers, blocked-ingress warnings) is compared.  Properties/C10.v proves
# the model's {ingress-controller} lines equal the pointwise statement of the property.
import copy, os, re
from .lib import core, gen, listcorr
from .lib.core import cstr, cz, cnat, clist, cbool

FID = 'c10-ingress-backend-by-targetport'
SVC_PORT_NAMES = ['web', 'http', 'p1', 'metrics']
CODES = dict(listcorr.CODES)
CODES[7] = 'blocked-ingress warnings differ'
WARN_RE = re.compile(r'^(K8s-Ingress|Route) resource (\S+) specified workload (\S+) as a backend, but network policies are blocking')


# ---------------------------------------------------------------- generator
def gen_ingress_objs(r, W, stress_target=False):
    """Services / Ingresses / Routes over the workloads of W; returns the list of object dicts"""
    objs = []
    wls = W['workloads']
    nss = sorted({w['ns'] for w in wls} | {n['name'] for n in W['namespaces']})
    svcs = []
    for i in range(r.randint(1, 4)):
        w = r.choice(wls)
        ns = w['ns'] if r.random() < 0.85 else r.choice(nss)
        x = r.random()
        if x < 0.08:
            sel = None
        elif x < 0.18:
            sel = {}
        elif x < 0.8 and w['labels']:
            ks = r.sample(sorted(w['labels']), r.randint(1, len(w['labels'])))
            sel = {k: w['labels'][k] for k in ks}
        else:
            sel = {k: r.choice(gen.VALS) for k in r.sample(gen.KEYS, r.randint(1, 2))}
        wnums = [p['port'] for p in w['ports']] or [80]
        wnames = [p['name'] for p in w['ports'] if p['name']] or ['http']
        ports, used = [], set()
        for j in range(r.randint(1, 3)):
            nm = r.choice(SVC_PORT_NAMES + [''])
            if nm in used:
                nm = ''
            used.add(nm)
            pnum = r.choice(wnums + wnums + gen.PORTS[:6] + [5000, 5001])
            y = r.random()
            if y < 0.3:
                tp = None
            elif y < 0.7:
                tp = r.choice(wnums + wnums + [8080, 9999])
            else:
                tp = r.choice(wnames + wnames + gen.NAMES)
            tcp = [p for p in w['ports'] if p['proto'] in ('TCP', None)]
            if tcp and r.random() < 0.6:      # a service port that does reach a TCP container port of w
                cp = r.choice(tcp)
                z = r.random()
                if z < 0.3:
                    pnum, tp = cp['port'], None
                elif z < 0.65 or not cp['name']:
                    tp = cp['port']
                else:
                    tp = cp['name']
            # a target port named after a container port that is NOT a TCP one, next to a TCP port with the same number: not reachable
            odd = [p for p in w['ports'] if p['proto'] != 'TCP' and p['name'] and any(q['proto'] == 'TCP' and q['port'] == p['port'] for q in w['ports'])]
            if odd and r.random() < 0.5:
                tp = r.choice(odd)['name']
            ports.append({'name': nm, 'port': pnum, 'targetPort': tp})
        name = 'svc%d' % (i if r.random() < 0.9 else 0)
        s = {'kind': 'Service', 'ns': ns, 'name': name, 'selector': sel, 'ports': ports}
        svcs.append(s)
        objs.append(s)

    def backend_port(s):
        """(pname, pnum) for an Ingress backend of service s"""
        sp = r.choice(s['ports'])
        y = r.random()
        if y < 0.3 and sp['name']:
            return sp['name'], 0
        if y < 0.6:
            return '', sp['port']
        if y < 0.8 or stress_target:
            tp = sp['targetPort']
            if isinstance(tp, int):
                return '', tp           # number of the targetPort: not a designation for an Ingress
            if isinstance(tp, str):
                return tp, 0
            return '', sp['port']
        if y < 0.9:
            return r.choice(SVC_PORT_NAMES + gen.NAMES), 0
        return '', r.choice([0, 80, 5000, 8080])

    def ing_backend():
        if r.random() < 0.12:
            return {'resource': True}
        s = r.choice(svcs)
        pn, pi = backend_port(s)
        return {'svc': s['name'] if r.random() < 0.9 else 'nosuch', 'pname': pn, 'pnum': pi}

    for i in range(r.choice([0, 1, 1, 2])):
        s = r.choice(svcs)
        rules = []
        for _ in range(r.randint(0, 2)):
            if r.random() < 0.15:
                rules.append(None)
            else:
                rules.append([ing_backend() for _ in range(r.randint(1, 2))])
        d = None
        if r.random() < 0.4 or not rules:
            d = ing_backend()
        objs.append({'kind': 'Ingress', 'ns': s['ns'] if r.random() < 0.9 else r.choice(nss), 'name': 'ing%d' % (i if r.random() < 0.9 else 0),
                     'default': d, 'rules': rules})
    for i in range(r.choice([0, 1, 1, 2])):
        s = r.choice(svcs)
        sp = r.choice(s['ports'])
        y = r.random()
        if y < 0.25:
            port = None
        elif y < 0.4:
            port = sp['name'] or sp['port']
        elif y < 0.55:
            port = sp['port']
        elif y < 0.85:
            port = sp['targetPort'] if sp['targetPort'] is not None else sp['port']
        else:
            port = r.choice([80, 8080, 'http', 'web'])

        def tgt():
            t = r.choice(svcs)
            return [r.choice(['Service', 'Service', 'Service', '', 'Other']), t['name'] if r.random() < 0.9 else 'nosuch']
        objs.append({'kind': 'Route', 'ns': s['ns'] if r.random() < 0.9 else r.choice(nss), 'name': 'rt%d' % (i if r.random() < 0.9 else 0),
                     'port': port, 'to': ['Service' if r.random() < 0.8 else r.choice(['', 'Other']), s['name']],
                     'alts': [tgt() for _ in range(r.choice([0, 0, 1, 2]))]})
    return objs


def gen_case(r, big=False):
    W = gen.gen_world(r, anp=(r.random() < 0.4), big=big)
    y = r.random()
    if y < 0.3:          # few policies: most backends are reachable
        W['netpols'] = W['netpols'][:1]
        W['anps'] = W['anps'][:1]
        W['banp'] = None
    elif y < 0.4:
        W['netpols'], W['anps'], W['banp'] = [], [], None
    # ingress analysis is about TCP container ports: bias the workloads towards having some
    for w in W['workloads']:
        if r.random() < 0.6:
            for p in w['ports']:
                if r.random() < 0.7:
                    p['proto'] = 'TCP'
            if not w['ports']:
                w['ports'].append({'port': r.choice(gen.PORTS), 'proto': 'TCP', 'name': r.choice(gen.NAMES + [''])})
    if r.random() < 0.2:
        # one port number declared twice, as UDP under one name and as TCP under another
        w = r.choice(W['workloads'])
        w['ports'] = [{'port': 53, 'proto': 'UDP', 'name': 'dns'}, {'port': 53, 'proto': 'TCP', 'name': 'metrics'}] + [p for p in w['ports'] if p['name'] not in ('dns', 'metrics')][:1]
    W['ingress_objs'] = gen_ingress_objs(r, W, stress_target=(r.random() < 0.15))
    x = r.random()
    if x < 0.7:
        focus = ''
    elif x < 0.85:
        focus = 'ingress-controller'
    else:
        w = r.choice(W['workloads'])
        nm = w['owner']['name'] if w.get('owner') else w['name']
        focus = r.choice([nm, w['ns'] + '/' + nm])
    return W, focus


# ---------------------------------------------------------------- emitters
def ios_yaml(v):
    return v


def c_ios(v):
    if v is None:
        return 'ios_none'
    if isinstance(v, int):
        return '(ios_num %s)' % cz(v)
    return '(ios_name %s)' % cstr(v)


def manifest(o):
    k = o['kind']
    meta = {'name': o['name'], 'namespace': o['ns']}
    if o['ns'] == 'default' and (k == 'Route' or (sum(map(ord, o['name'])) + len(k)) % 2 == 0):
        meta = {'name': o['name']}        # a namespaced object written without namespace lives in default (every Route, half of the others; fixed per object)
    if k == 'Service':
        ports = []
        for p in o['ports']:
            d = {'port': p['port'], 'protocol': 'TCP'}
            if p['name']:
                d['name'] = p['name']
            if p['targetPort'] is not None:
                d['targetPort'] = p['targetPort']
            ports.append(d)
        spec = {'ports': ports}
        if o['selector'] is not None:
            spec['selector'] = dict(o['selector'])
        return {'apiVersion': 'v1', 'kind': 'Service', 'metadata': meta, 'spec': spec}
    if k == 'Ingress':
        def be(b):
            if b.get('resource'):
                return {'resource': {'apiGroup': 'k8s.example.com', 'kind': 'StorageBucket', 'name': 'static'}}
            port = {'name': b['pname']} if b['pname'] else {'number': b['pnum']}
            return {'service': {'name': b['svc'], 'port': port}}
        spec = {}
        if o['default'] is not None:
            spec['defaultBackend'] = be(o['default'])
        rules = []
        for i, rl in enumerate(o['rules']):
            if rl is None:
                rules.append({'host': 'h%d.example.com' % i})
            else:
                rules.append({'host': 'h%d.example.com' % i,
                              'http': {'paths': [{'path': '/p%d' % j, 'pathType': 'Prefix', 'backend': be(b)} for j, b in enumerate(rl)]}})
        if rules:
            spec['rules'] = rules
        return {'apiVersion': 'networking.k8s.io/v1', 'kind': 'Ingress', 'metadata': meta, 'spec': spec}
    if k == 'Route':
        to = {'name': o['to'][1], 'weight': 100}
        if o['to'][0]:
            to['kind'] = o['to'][0]
        spec = {'host': 'r.example.com', 'to': to}
        if o['port'] is not None:
            spec['port'] = {'targetPort': o['port']}
        if o['alts']:
            spec['alternateBackends'] = [dict({'name': n, 'weight': 10}, **({'kind': kd} if kd else {})) for kd, n in o['alts']]
        return {'apiVersion': 'route.openshift.io/v1', 'kind': 'Route', 'metadata': meta, 'spec': spec}
    raise ValueError(k)


def c_iobj(o):
    k = o['kind']
    if k == 'Service':
        ports = clist(['(mkSP %s %s %s)' % (cstr(p['name']), cz(p['port']), c_ios(p['targetPort'])) for p in o['ports']])
        sel = 'None' if o['selector'] is None else '(Some %s)' % gen.c_labels(o['selector'])
        return '(ISvc (mkSvc %s %s %s %s))' % (cstr(o['ns']), cstr(o['name']), sel, ports)
    if k == 'Ingress':
        def be(b):
            if b.get('resource'):
                return 'None'
            return '(Some (mkBR %s %s %s))' % (cstr(b['svc']), cstr(b['pname']), cz(b['pnum']))
        d = 'None' if o['default'] is None else '(Some %s)' % be(o['default'])
        rules = clist(['None' if rl is None else '(Some %s)' % clist([be(b) for b in rl]) for rl in o['rules']])
        return '(IIng (mkIngDoc %s %s %s %s))' % (cstr(o['ns']), cstr(o['name']), d, rules)
    if k == 'Route':
        port = 'None' if o['port'] is None else '(Some %s)' % c_ios(o['port'])
        return '(IRoute (mkRouteDoc %s %s %s (%s, %s) %s))' % (
            cstr(o['ns']), cstr(o['name']), port, cstr(o['to'][0]), cstr(o['to'][1]),
            clist(['(%s, %s)' % (cstr(kd), cstr(n)) for kd, n in o['alts']]))
    raise ValueError(k)


HEADER = ['From Coq Require Import List ZArith String.',
          'From NP Require Import IntervalSet ConnSet World Eval Build Connlist Ingress.',
          'Import ListNotations.', 'Open Scope Z_scope.']


def parse_warns(o):
    ws = []
    for e in o.get('errors') or []:
        m = WARN_RE.match(e['msg'])
        if m:
            ws.append((m.group(1) == 'K8s-Ingress', m.group(2), m.group(3)))
    return ws


def evaluate(h, cases, rng=None):
    """cases: list of (id, W, focus) -> per-id result and list of (id, strict_code, impl_code)"""
    cmds, meta = [], {}
    for cid, W, focus in cases:
        dl = gen.docs(W)
        il = [(manifest(o), c_iobj(o)) for o in W['ingress_objs']]
        allm = [(m, 'o', t) for m, t in dl] + [(m, 'i', t) for m, t in il]
        if rng is not None:
            rng.shuffle(allm)
        d = h.dir_for('c%d' % cid)
        gen.write_dir(d, [m for m, _, _ in allm])
        cmds.append({'id': str(cid), 'cmd': 'list', 'dir': d, 'focus': focus})
        meta[cid] = allm
    outs = h.run(cmds)
    text = list(HEADER)
    text.append('Definition cases : list ing_case := [')
    rows = []
    res = {}
    for (cid, W, focus), o in zip(cases, outs):
        allm = meta[cid]
        objs = [t for _, k, t in allm if k == 'o']
        iobjs = [t for _, k, t in allm if k == 'i']
        ws = parse_warns(o)
        rows.append('(mkIC %s %s %s %s %s %s)' % (cnat(cid), clist(objs), clist(iobjs), cstr(focus), gen.c_obs_list(o),
                                                 clist(['(mkOW %s %s %s)' % (cbool(a), cstr(b), cstr(c)) for a, b, c in ws])))
        res[cid] = {'manifests': [m for m, _, _ in allm], 'obs': o, 'focus': focus, 'world': W, 'warns': ws}
    text.append(';\n'.join(rows))
    text.append('].')
    text.append('Definition MM := Eval vm_compute in map (fun x => (fst x, fst (snd x), snd (snd x))) (ing_mismatches cases).')
    text.append('Print MM.')
    rc, out, err = core.run_coq_text('\n'.join(text))
    if rc != 0:
        raise RuntimeError('coqc on ingress cases failed: ' + err[-2000:])
    m = re.search(r'MM\s*=\s*(\[.*?\])\s*:\s*list', out, re.S)
    if not m:
        raise RuntimeError('could not parse coqc output: ' + out[-800:])
    mm = [tuple(int(x.strip().replace('%nat', '')) for x in t.split(',')) for t in re.findall(r'\(([^()]*)\)', m.group(1).replace('((', '(').replace('))', ')'))] \
        if m.group(1).strip() != '[]' else []
    return res, mm


def shrink(W, focus, still, budget=25):
    cur = copy.deepcopy(W)
    if os.environ.get('VERIF_NOSHRINK'):
        return cur
    changed = True
    while changed and budget > 0:
        changed = False
        for key in ('ingress_objs', 'netpols', 'anps', 'workloads', 'namespaces'):
            i = 0
            while i < len(cur[key]) and budget > 0:
                cand = copy.deepcopy(cur)
                del cand[key][i]
                budget -= 1
                if cand['workloads'] and still(cand):
                    cur = cand
                    changed = True
                else:
                    i += 1
        if cur.get('banp') and budget > 0:
            cand = copy.deepcopy(cur)
            cand['banp'] = None
            budget -= 1
            if still(cand):
                cur = cand
                changed = True
    return cur


def has_ing_line(o):
    return o['outcome'] == 'ok' and any(c['src'] == '{ingress-controller}' for c in o['conns'])


def run_cases(run, h, cases, rng=None):
    res, mm = evaluate(h, cases, rng)
    run.count(len(cases))
    run.cov['traces_validated_against_impl'] += len(cases)
    for cid, W, focus in cases:
        o = res[cid]['obs']
        run.dist('outcome:' + o['outcome'])
        run.dist('ingress-lines:%d' % min(3, sum(1 for c in (o.get('conns') or []) if c['src'] == '{ingress-controller}')))
        run.dist('blocked-warnings:%d' % min(3, len(res[cid]['warns'])))
        run.dist('focus:' + ('none' if not focus else 'ingress-controller' if focus == 'ingress-controller' else 'workload'))
        for ob in W['ingress_objs']:
            run.dist('obj:' + ob['kind'])
        if has_ing_line(o) or res[cid]['warns']:
            run.nontrivial([W, focus])
    byid = {cid: (W, focus) for cid, W, focus in cases}
    for cid, strict_code, impl_code in mm:
        W, focus = byid[cid]
        known = (impl_code == 0)

        def still(c):
            try:
                _, m2 = evaluate(h, [(cid, c, focus)])
            except Exception:
                return False
            return any(a == strict_code and (b == 0) == known for _, a, b in m2)
        small = shrink(W, focus, still, budget=(25 if len(run.violations) + len(run.known_hits) == 0 else 0))
        r2, _ = evaluate(h, [(cid, small, focus)])
        run.report(FID if known else None, 'ingress-%d-%d' % (cid, strict_code),
                   {'kind': 'ingress-correspondence', 'focus': focus, 'code': strict_code, 'impl_rule_code': impl_code,
                    'meaning': CODES[strict_code], 'world': small, 'manifests': r2[cid]['manifests'], 'observed': r2[cid]['obs'],
                    'how': 'write the manifests to a directory (one document per file, in this order) and run `k8snetpolicy list --dirpath DIR`; '
                           'Model/Ingress.v list_objs_ing true (proved equal to the pointwise statement in Properties/C10.v) gives a different answer'
                           + ('; the implementation agrees with list_objs_ing false, i.e. an Ingress backend number matched a service targetPort' if known else '')},
                   CODES[strict_code])
    return res, mm


def main(tier):
    run = core.Run('C10', tier)
    run.cov['rule'] = ('random worlds (as C01/C02: namespaces, workloads of all kinds with named/numbered TCP/UDP/SCTP container ports, NetworkPolicies, sometimes ANPs/BANP) '
                       'plus 1-4 Services (selector nil/empty/subset of a workload\'s labels/random; 1-3 ports with/without name, targetPort unset/number/name), '
                       '0-2 Ingresses (default backend, rules with/without http, service and resource backends, port by name/number/targetPort value/absent) and '
                       '0-2 Routes (to/alternateBackends of kind Service/empty/other, port.targetPort unset/number/name); documents shuffled; focus none/ingress-controller/workload; '
                       'whole report and blocked-ingress warnings compared with Model/Ingress.v; non-trivial = at least one {ingress-controller} line or blocked warning')
    run.stage_proofs()
    b = core.build_go(['verifapi'], run.log)
    if not b['verifapi'][0]:
        run.proof_ok = False
        run.proof_notes.append('harness verifapi does not build against this tree: ' + b['verifapi'][1][-600:])
        return run.finish()
    n = 300 if tier == 'quick' else 6000
    h = listcorr.Harness()
    try:
        shard = 150
        k = 0
        while k < n and len(run.violations) < 3:
            cases = []
            for i in range(min(shard, n - k)):
                W, focus = gen_case(run.rng, big=(tier != 'quick'))
                cases.append((k + i, W, focus))
            if k == 0:
                run.sample({'world': cases[0][1], 'focus': cases[0][2]})
            run_cases(run, h, cases, run.rng)
            k += shard
    finally:
        h.close()
    return run.finish()


def replay(payload):
    run = core.Run('C10', 'quick')
    run.stage_proofs()
    core.build_go(['verifapi'], run.log)
    h = listcorr.Harness()
    try:
        run_cases(run, h, [(1, payload['world'], payload.get('focus', ''))])
    finally:
        h.close()
    return run.finish()
