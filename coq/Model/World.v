(* World.v — the objects the analysis reads, as plain data.
   Mirrors the fields of the Kubernetes objects that /repo/pkg/netpol/eval reads
   (internal/k8s/{pod,namespace,netpol,adminnetpol,baseline_admin_netpol}.go) and the
   apimachinery label-selector semantics (modelled, not verified: see DESIGN.md section 7).
   Executable definitions only. *)
From Coq Require Import List ZArith Bool String.
From NP Require Import IntervalSet ConnSet.
Import ListNotations.
Open Scope string_scope.
Open Scope list_scope.
Open Scope Z_scope.

(* ---------- outcomes ---------- *)
Inductive err :=
| ErrSelector      (* label selector that apimachinery rejects *)
| ErrCidr          (* invalid CIDR / except *)
| ErrRulePeer      (* NetworkPolicy rule peer that is empty or combines ipBlock with selectors *)
| ErrNamedPortIP   (* named port would have to be resolved on an IP destination (documented) *)
| ErrMissingNs     (* pod whose namespace object is unknown *)
| ErrAdminPeer     (* (B)ANP rule with no peers / peer without exactly one of namespaces,pods *)
| ErrAdminPort     (* (B)ANP port without exactly one field *)
| ErrAdminSubject  (* (B)ANP subject without exactly one field *)
| ErrAdminAction   (* unknown action, or Pass in a BANP *)
| ErrConflict (k : nat)  (* C19 conflict classes, see Build.v *)
| ErrOther.

Inductive outcome (A : Type) := Ok (a : A) | Err (e : err).
Arguments Ok {A} a.
Arguments Err {A} e.

Definition bind {A B} (x : outcome A) (f : A -> outcome B) : outcome B :=
  match x with Ok a => f a | Err e => Err e end.
Notation "'do' x <- a ; b" := (bind a (fun x => b)) (at level 200, x name, a at level 100, b at level 200).

Definition is_ok {A} (x : outcome A) : bool := match x with Ok _ => true | Err _ => false end.

(* ---------- labels and selectors ---------- *)
Definition labels := list (string * string).

Fixpoint lookup (k : string) (l : labels) : option string :=
  match l with
  | [] => None
  | (k', v) :: t => if String.eqb k k' then Some v else lookup k t
  end.

Fixpoint str_mem (x : string) (l : list string) : bool :=
  match l with [] => false | y :: t => String.eqb x y || str_mem x t end.

Inductive sel_op := OpIn | OpNotIn | OpExists | OpDoesNotExist.
Record requirement := mkReq { r_key : string; r_op : sel_op; r_vals : list string }.
Record selector := mkSel { s_match : labels; s_exprs : list requirement }.

Definition sel_empty (s : selector) : bool :=
  match s_match s, s_exprs s with [], [] => true | _, _ => false end.

(* metav1.LabelSelectorAsSelector: In/NotIn need values, Exists/DoesNotExist must have none *)
Definition req_valid (r : requirement) : bool :=
  match r_op r with
  | OpIn | OpNotIn => match r_vals r with [] => false | _ => true end
  | OpExists | OpDoesNotExist => match r_vals r with [] => true | _ => false end
  end.
Definition sel_valid (s : selector) : bool := forallb req_valid (s_exprs s).

Definition req_matches (r : requirement) (l : labels) : bool :=
  match r_op r, lookup (r_key r) l with
  | OpIn, Some v => str_mem v (r_vals r)
  | OpIn, None => false
  | OpNotIn, Some v => negb (str_mem v (r_vals r))
  | OpNotIn, None => true
  | OpExists, Some _ => true
  | OpExists, None => false
  | OpDoesNotExist, Some _ => false
  | OpDoesNotExist, None => true
  end.

Definition sel_matches_raw (s : selector) (l : labels) : bool :=
  forallb (fun kv => match lookup (fst kv) l with Some v => String.eqb v (snd kv) | None => false end)
          (s_match s)
  && forallb (fun r => req_matches r l) (s_exprs s).

Definition sel_matches (s : selector) (l : labels) : outcome bool :=
  if sel_valid s then Ok (sel_matches_raw s l) else Err ErrSelector.

(* ---------- namespaces, pods ---------- *)
Record namespace := mkNs { ns_name : string; ns_labels : labels }.

Record cport := mkCPort { cp_name : string; cp_num : Z; cp_proto : proto }.

(* a pod as the policy engine stores it (internal/k8s/pod.go Pod) *)
Record pod := mkPod {
  p_ns : string; p_name : string; p_labels : labels; p_ports : list cport;
  p_owner_name : string; p_owner_kind : string;
  p_fake : bool        (* ingress-controller pod *)
}.

(* ConvertPodNamedPort: first container port with that name *)
Fixpoint pod_named_port (ports : list cport) (name : string) : option (proto * Z) :=
  match ports with
  | [] => None
  | c :: t => if String.eqb name (cp_name c) then Some (cp_proto c, cp_num c) else pod_named_port t name
  end.

(* ---------- NetworkPolicy ---------- *)
Inductive dir := Ingress | Egress.
Definition dir_eqb (a b : dir) : bool :=
  match a, b with Ingress, Ingress | Egress, Egress => true | _, _ => false end.

Inductive np_peer :=
| NPSel (nsSel : option selector) (podSel : option selector)   (* at least one is Some *)
| NPIP (cidr : ivl) (excepts : list ivl)                       (* CIDRs as integer ranges *)
| NPIPBad                                                       (* unparsable CIDR / except *)
| NPEmpty                                                       (* no field set *)
| NPCombined.                                                   (* ipBlock together with a selector *)

Inductive np_portval := PAll | PNum (n : Z) | PName (s : string).
Record np_port := mkNpPort { pp_proto : proto; pp_port : np_portval; pp_end : option Z }.
Record np_rule := mkNpRule { nr_peers : list np_peer; nr_ports : list np_port }.
Record netpol := mkNetpol {
  np_ns : string; np_name : string; np_sel : selector; np_types : list dir;
  np_in : list np_rule; np_eg : list np_rule
}.

(* parseNetpolCIDR: cidr minus its excepts, as a canonical interval set *)
Definition rule_block (cidr : ivl) (excepts : list ivl) : iset := isub [cidr] excepts.

(* ---------- AdminNetworkPolicy / BaselineAdminNetworkPolicy ---------- *)
Inductive admin_peer :=
| APNamespaces (s : selector)
| APPods (nsSel podSel : selector)
| APBad.                              (* neither or both of namespaces/pods set (e.g. networks, nodes) *)

Inductive admin_port :=
| APortNum (p : proto) (n : Z)
| APortRange (p : proto) (lo hi : Z)
| APortNamed (name : string)
| APortBad.

Inductive action := AAllow | ADeny | APass | AUnknown.
Record admin_rule := mkARule { ar_name : string; ar_action : action; ar_peers : list admin_peer;
                               ar_ports : option (list admin_port) }.
Record anp := mkAnp { a_name : string; a_prio : Z; a_subject : admin_peer;
                      a_in : list admin_rule; a_eg : list admin_rule }.
Record banp := mkBanp { b_name : string; b_subject : admin_peer;
                        b_in : list admin_rule; b_eg : list admin_rule }.

(* ---------- the policy engine's view of the world ---------- *)
Record world := mkWorld {
  w_nss : list namespace;        (* namespacesMap (name-unique) *)
  w_pods : list pod;             (* podsMap values (key ns/name unique) *)
  w_nps : list netpol;           (* netpolsMap flattened *)
  w_anps : list anp;             (* sortedAdminNetpols, in the order they are applied *)
  w_banp : option banp
}.

Fixpoint find_ns (name : string) (l : list namespace) : option namespace :=
  match l with
  | [] => None
  | n :: t => if String.eqb name (ns_name n) then Some n else find_ns name t
  end.

(* a peer of the evaluation: a pod together with its namespace labels, or an IP range *)
Inductive peer := PPod (p : pod) (nsl : labels) | PIP (b : ivl).

Definition peer_is_ip (x : peer) : bool := match x with PIP _ => true | PPod _ _ => false end.

Definition pod_peer (w : world) (p : pod) : outcome peer :=
  match find_ns (p_ns p) (w_nss w) with
  | Some n => Ok (PPod p (ns_labels n))
  | None => Err ErrMissingNs
  end.
