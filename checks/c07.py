# C07 — exposure analysis is complete: no potential connection is unreported.
#  (a) the whole exposure result equals Model/Exposure.v exposure_objs (shared with C06), for which Properties/C07.v proves
#      that every rule of a governing policy is covered by the entire-cluster entry, by the entry of its selector pair, or
#      falls under the documented refinement;
#  (b) completeness probe on the implementation itself: hypothetical pods (labels over the vocabulary of the policies plus
#      fresh ones, in an existing or a new namespace, declaring named ports) are added to the input; every connection the
#      real analysis then allows between a protected workload and the pod must be covered by the workload's entire-cluster
#      exposure or by a reported entry (of the run WITHOUT the pod) whose selectors the pod satisfies - unless a rule made
#      only of label equalities, satisfied by an existing workload, allows it (the documented omission).
import copy, json
from . import c01, c06
from .lib import core, gen, listcorr, xpo

NEWNS = 'nshypo'
EXTRA_KEYS = ['role', 'team']


def ns_table(W):
    nss = {n['name']: (dict(n['labels']) if n['obj'] else {}) for n in W['namespaces']}   # labels exist only if the Namespace object is part of the input
    for w in W['workloads']:
        nss.setdefault(w['ns'], {})
    for p in W['netpols']:
        nss.setdefault(p['ns'] or 'default', {})
    for n in nss:
        nss[n].setdefault(gen.NSKEY, n)
    return nss


def vocab(W):
    """label (key, value) pairs occurring in rule selectors, and named ports occurring in rules"""
    kv, names = set(), set()
    def sel(s):
        if not s:
            return
        for k, v in (s.get('matchLabels') or {}).items():
            kv.add((k, v))
        for e in s.get('matchExpressions') or []:
            for v in e.get('values') or ['any']:
                kv.add((e['key'], v))
    for p in W['netpols']:
        for d, key in (('ingress', 'from'), ('egress', 'to')):
            for rule in p.get(d) or []:
                for peer in rule.get(key) or []:
                    sel(peer.get('podSelector'))
                    sel(peer.get('namespaceSelector'))
                for pp in rule.get('ports') or []:
                    if isinstance(pp.get('port'), str):
                        names.add((pp['port'], pp.get('protocol') or 'TCP'))
    return sorted(kv), sorted(names)


def hypothetical(W, r):
    kv, names = vocab(W)
    nss = ns_table(W)
    podkv = [x for x in kv if x[0] != gen.NSKEY]
    labels = {}
    for k, v in r.sample(podkv, min(len(podkv), r.randint(0, 4))):
        labels[k] = v
    if r.random() < 0.3:
        labels[r.choice(EXTRA_KEYS)] = r.choice(['x', 'y'])
    W2 = copy.deepcopy(W)
    polns = {p['ns'] or 'default' for p in W['netpols']}
    free = [n for n in sorted(nss) if n not in polns]
    x = r.random()
    if x < 0.35 and free:
        ns_name = r.choice(free)
    elif x < 0.55:
        ns_name = r.choice(sorted(nss))
    else:
        ns_name = NEWNS
        nl = {}
        for k, v in r.sample(podkv, min(len(podkv), r.randint(0, 3))):
            nl[k] = v
        # a namespace named by a rule (name label) but absent from the input
        named = [v for k, v in kv if k == gen.NSKEY and v not in nss]
        if named and r.random() < 0.5:
            ns_name = r.choice(named)
        W2['namespaces'].append({'name': ns_name, 'labels': nl, 'obj': True})
        nss[ns_name] = dict(nl, **{gen.NSKEY: ns_name})
    ports, used = [], set()
    num = 31000
    for nm, proto in names:
        if r.random() < 0.7 and nm not in used:
            used.add(nm)
            num += 1
            ports.append({'port': num, 'proto': proto if r.random() < 0.8 else r.choice(gen.PROTOS), 'name': nm})
    W2['workloads'].append({'kind': 'Pod', 'ns': ns_name, 'name': 'hypo', 'labels': labels, 'ports': ports, 'replicas': None, 'owner': None, 'omit_ns': False})
    return W2, ns_name, labels, nss[ns_name], ports


def affects(p, d):
    t = p.get('policyTypes')
    if t:
        return ('Ingress' if d == 'ingress' else 'Egress') in t
    return d == 'ingress' or bool(p.get('egress'))


def port_covers(pp, proto, port, dst_ports):
    if (pp.get('protocol') or 'TCP') != proto:
        return False
    v = pp.get('port')
    if v is None:
        return True
    if isinstance(v, int):
        return v <= port <= (pp.get('endPort') or v)
    return any(c['name'] == v and (c['proto'] or 'TCP') == proto and c['port'] == port for c in dst_ports)


def excused(W, wl, d, proto, port, hyp_labels, hyp_nsl, hyp_ports, nss):
    """the documented omission: a rule made only of label equalities that an existing workload already satisfies"""
    key = 'from' if d == 'ingress' else 'to'
    dst_ports = wl['ports'] if d == 'ingress' else hyp_ports
    for p in W['netpols']:
        pns = p['ns'] or 'default'
        if pns != wl['ns'] or not affects(p, d) or not xpo.sel_matches(p['podSelector'], wl['labels']):
            continue
        for rule in p.get(d) or []:
            ports = rule.get('ports') or []
            if ports and not any(port_covers(pp, proto, port, dst_ports) for pp in ports):
                continue
            for peer in rule.get(key) or []:
                if 'ipBlock' in peer:
                    continue
                ps, nsel = peer.get('podSelector'), peer.get('namespaceSelector')
                if ps is None or ps.get('matchExpressions') or not ps.get('matchLabels'):
                    continue
                if nsel is None:
                    nsel = {'matchLabels': {gen.NSKEY: pns}}
                if nsel.get('matchExpressions') or not nsel.get('matchLabels'):
                    continue
                if not (xpo.sel_matches(ps, hyp_labels) and xpo.sel_matches(nsel, hyp_nsl)):
                    continue
                if any(xpo.sel_matches(ps, w2['labels']) and xpo.sel_matches(nsel, nss.get(w2['ns'], {})) for w2 in W['workloads']):
                    return True
    return False


def entry_covers(e, proto, port, decl_by_hyp, direction):
    isall, parsed = xpo.parse_conn_str(e['conn_str'])
    if isall:
        return True
    ranges, names = parsed.get(proto, ([], []))
    if any(lo <= port <= hi for lo, hi in ranges):
        return True
    if direction == 'egress':
        # a named port of an egress entry means that name as declared by the pod on the other side
        return any(c['name'] in names and (c['proto'] or 'TCP') == proto and c['port'] == port for c in decl_by_hyp)
    return False


def wl_string(w):
    if w['kind'] == 'Pod':
        if w.get('owner'):
            return '%s/%s[%s]' % (w['ns'], w['owner']['name'], w['owner']['kind'])
        return '%s/%s[Pod]' % (w['ns'], w['name'])
    return '%s/%s[%s]' % (w['ns'], w['name'], w['kind'])


def main(tier):
    run = core.Run('C07', tier)
    run.cov['rule'] = ('random NetworkPolicy worlds with the exposure motifs of C06; (a) the whole ExposedPeers() result vs Model/Exposure.v; (b) per world several hypothetical pods '
                       '(labels drawn from the selectors of the policies plus fresh ones; existing namespace, new namespace with drawn labels, or a namespace named by a rule; '
                       'declaring the named ports of the rules, sometimes on another protocol) are added and the real list --exposure is run again: every connection allowed between a '
                       'protected workload and the pod (the pod being unprotected on its side) must be covered by the workload\'s entire-cluster entry or by an entry of the first run whose '
                       'selectors the pod satisfies, unless the documented refinement applies; non-trivial = a covered connection that is not all-connections')
    run.stage_proofs()
    b = core.build_go(['verifapi'], run.log)
    if not b['verifapi'][0]:
        run.proof_ok = False
        run.proof_notes.append('harness verifapi does not build against this tree: ' + b['verifapi'][1][-600:])
        return run.finish()
    n = 120 if tier == 'quick' else 2500
    hyp_per_world = 3 if tier == 'quick' else 6
    h = listcorr.Harness()
    r = run.rng
    try:
        shard, k = 60, 0
        while k < n and len(run.violations) < 3:
            scen = [(k + i, c06.gen_case(r, big=(tier != 'quick'))) for i in range(min(shard, n - k))]
            res, mm = xpo.evaluate(h, scen, r)
            run.count(len(scen))
            run.cov['traces_validated_against_impl'] += len(scen)
            byid = dict(scen)
            for cid, code in mm[:4]:
                if code in (1, 2, 3, 5):
                    continue          # base report / outcome: C06's concern
                W = byid[cid]
                run.report(None, 'xmodel-%d-%d' % (cid, code),
                           {'kind': 'exposure-correspondence', 'code': code, 'meaning': xpo.XCODES.get(code, str(code)), 'world': W,
                            'manifests': [m for m, _ in res[cid]['docs']], 'observed_exposure': res[cid]['obs'].get('exposure'),
                            'how': 'k8snetpolicy list --dirpath DIR --exposure; Model/Exposure.v exposure_objs (complete by Properties/C07.v) gives a different result'},
                           xpo.XCODES.get(code, str(code)))
            probes, cmds = [], []
            for cid, W in scen:
                ox = res[cid]['obs']
                if ox['outcome'] != 'ok':
                    continue
                for j in range(hyp_per_world):
                    W2, hns, hl, hnsl, hports = hypothetical(W, r)
                    d = h.dir_for('q%d_%d' % (cid, j))
                    gen.write_dir(d, [m for m, _ in gen.docs(W2)])
                    cmds.append({'id': 'q', 'cmd': 'list', 'dir': d, 'exposure': True})
                    probes.append((cid, W, W2, hns, hl, hnsl, hports))
            outs = h.run(cmds) if cmds else []
            for (cid, W, W2, hns, hl, hnsl, hports), o in zip(probes, outs):
                if o['outcome'] != 'ok':
                    run.dist('probe:second-run-fails')
                    continue
                hp = '%s/hypo[Pod]' % hns
                xp2 = {x['peer']: x for x in (o.get('exposure') or [])}
                xp1 = {x['peer']: x for x in (res[cid]['obs'].get('exposure') or [])}
                nss = ns_table(W2)
                for wl in W['workloads']:
                    ws = wl_string(wl)
                    for direction in ('egress', 'ingress'):
                        # the pod must be unprotected on its own side, so that the connection is decided by the workload's policies alone
                        hx = xp2.get(hp)
                        if hx is None or hx['ingress_protected' if direction == 'egress' else 'egress_protected']:
                            run.dist('probe:pod-protected')
                            continue
                        w1 = xp1.get(ws)
                        prot = True if w1 is None else w1[direction + '_protected']
                        if not prot:
                            continue
                        entries = [] if w1 is None else w1[direction]
                        src, dst = (ws, hp) if direction == 'egress' else (hp, ws)
                        got = next((c['conn'] for c in o['conns'] if c['src'] == src and c['dst'] == dst), None)
                        if got is None:
                            run.dist('probe:no-connection')
                            continue
                        run.dist('probe:checked')
                        for proto, port in xpo.conn_points(got):
                            cov = False
                            for e in entries:
                                if e['cluster'] or (xpo.sel_matches(e['ns_sel'], hnsl) and xpo.sel_matches(e['pod_sel'], hl)):
                                    if entry_covers(e, proto, port, hports, direction):
                                        cov = True
                                        break
                            if cov:
                                if not got['all']:
                                    run.nontrivial([cid, ws, direction, proto, port, hl, hns])
                                continue
                            if excused(W, wl, direction, proto, port, hl, hnsl, hports, nss):
                                run.dist('probe:documented-omission')
                                continue
                            run.report(None, 'unreported-%d' % cid,
                                       {'kind': 'completeness', 'workload': ws, 'direction': direction, 'point': [proto, port], 'hypothetical_pod': W2['workloads'][-1],
                                        'hypothetical_namespace': {'name': hns, 'labels': hnsl}, 'reported_entries': entries, 'allowed_with_pod': got, 'world': W,
                                        'manifests': [m for m, _ in gen.docs(W)], 'manifests_with_pod': [m for m, _ in gen.docs(W2)],
                                        'how': 'list --exposure on `manifests` reports `reported_entries` for the workload; with the hypothetical pod added the analysis allows `point` between them, '
                                               'which no reported entry the pod satisfies covers'},
                                       'a potential connection is not reported by the exposure analysis')
                            break
            if k == 0 and scen:
                run.sample({'world': scen[0][1]})
            k += shard
    finally:
        h.close()
    return run.finish()


def replay(payload):
    run = core.Run('C07', 'quick')
    run.stage_proofs()
    core.build_go(['verifapi'], run.log)
    h = listcorr.Harness()
    try:
        res, mm = xpo.evaluate(h, [(1, payload['world'])])
        run.count(1)
        if [c for _, c in mm if c in (8, 9, 10)]:
            run.report(None, 'replay', payload, 'exposure result differs from the model')
    finally:
        h.close()
    return run.finish()
