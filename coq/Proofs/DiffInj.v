(* DiffInj.v — the md output of `diff` determines the diff (its added / removed / changed entries, as a multiset). *)
From Coq Require Import List ZArith Bool String Ascii Lia Permutation.
From NP Require Import IntervalSet ConnSet IntervalSetProofs ConnSetProofs World Build Connlist Diff Format
     SortGeneric FormatProofs StrInj ConnInj RowInj WfProofs.
Import ListNotations.
Open Scope string_scope.

Definition nobar (ch : ascii) : bool := negb (Ascii.eqb ch "|").
Lemma nobar_bar : nobar "|" = false. Proof. reflexivity. Qed.
Lemma conn_nobar ch : conn_char ch = true -> nobar ch = true.
Proof. unfold nobar. destruct (Ascii.eqb_spec ch "|"); [subst; cbn; discriminate|reflexivity]. Qed.

Definition dpeer_ok (p : rpeer) : Prop := peer_ok p /\ all_chars nobar (rpeer_str p) = true.

Definition dentry_ok (e : dentry) : Prop :=
  dpeer_ok (de_src e) /\ dpeer_ok (de_dst e) /\ de_src e <> de_dst e /\ cs_ninv (de_c1 e) /\ cs_ninv (de_c2 e) /\
  (de_type e = DAdded -> de_c1 e = cs_make false) /\ (de_type e = DRemoved -> de_c2 e = cs_make false).

Lemma dtype_str_inj a b : dtype_str a = dtype_str b -> a = b.
Proof. destruct a, b; cbn; intros H; try reflexivity; discriminate. Qed.

Lemma dtype_str_nobar t : all_chars nobar (dtype_str t) = true.
Proof. destruct t; reflexivity. Qed.

Lemma length_lt_neq (a b : string) : (String.length a < String.length b)%nat -> a <> b.
Proof. intros H E. subst. lia. Qed.

(* the workloads-diff-info string determines the two flags *)
Lemma diff_info_flags S D T a b a' b' :
  all_chars plain S = true -> all_chars plain D = true -> S <> D ->
  (if a || b then "workload " ++ (if a then S else "") ++ (if a && b then " and " else "") ++ (if b then D else "") ++ " " ++ T else "")
  = (if a' || b' then "workload " ++ (if a' then S else "") ++ (if a' && b' then " and " else "") ++ (if b' then D else "") ++ " " ++ T else "") ->
  a = a' /\ b = b'.
Proof.
  intros HS HD Hne H.
  assert (L1 : S ++ " " ++ T = S ++ " and " ++ D ++ " " ++ T -> False).
  { intros E. apply append_inj_l in E. apply (f_equal String.length) in E. cbn [append String.length] in E.
    rewrite length_append in E. cbn [String.length] in E. lia. }
  assert (L2 : forall X, D ++ " " ++ T = S ++ " and " ++ X -> False).
  { intros X E. cbn [append] in E. destruct (split_unique plain " " _ _ _ _ plain_space HD HS E) as [E1 _]. congruence. }
  destruct a, b, a', b'; cbn [orb andb] in H; cbn [append] in H; try (split; reflexivity); try discriminate;
    injection H as H; repeat (match type of H with String ?c _ = String ?c _ => injection H as H end); exfalso.
  - (* tt vs tf *) symmetry in H. exact (L1 H).
  - (* tt vs ft *) symmetry in H. exact (L2 _ H).
  - (* tf vs tt *) exact (L1 H).
  - (* tf vs ft *) change (S ++ String " " T = D ++ String " " T) in H. apply append_inj_r in H. congruence.
  - (* ft vs tt *) exact (L2 _ H).
  - (* ft vs tf *) change (D ++ String " " T = S ++ String " " T) in H. apply append_inj_r in H. congruence.
Qed.

Lemma ninv_empty : cs_ninv (cs_make false).
Proof. apply cs_ninvb_spec. reflexivity. Qed.

(* what is printed for the two sides: the set, or No Connections for the absent side *)
Definition side1 (e : dentry) : connset := match de_type e with DAdded => cs_make false | _ => de_c1 e end.
Definition side2 (e : dentry) : connset := match de_type e with DRemoved => cs_make false | _ => de_c2 e end.

Lemma dr_c1_is e : dr_c1 (drow_of e) = cs_string (side1 e).
Proof. unfold drow_of, side1. cbn [dr_c1]. destruct (de_type e); reflexivity. Qed.
Lemma dr_c2_is e : dr_c2 (drow_of e) = cs_string (side2 e).
Proof. unfold drow_of, side2. cbn [dr_c2]. destruct (de_type e); reflexivity. Qed.

Theorem drow_of_inj e e' : dentry_ok e -> dentry_ok e' -> drow_of e = drow_of e' -> e = e'.
Proof.
  intros (S1 & D1 & N1 & C1 & C1' & A1 & R1) (S2 & D2 & N2 & C2 & C2' & A2 & R2) H.
  assert (Ht : de_type e = de_type e'). { apply dtype_str_inj. exact (f_equal dr_type H). }
  assert (Hs : de_src e = de_src e'). { apply rpeer_str_inj; [apply S1|apply S2|exact (f_equal dr_src H)]. }
  assert (Hd : de_dst e = de_dst e'). { apply rpeer_str_inj; [apply D1|apply D2|exact (f_equal dr_dst H)]. }
  assert (H1 : side1 e = side1 e').
  { apply cs_string_inj.
    - unfold side1. destruct (de_type e); try exact C1; exact ninv_empty.
    - unfold side1. destruct (de_type e'); try exact C2; exact ninv_empty.
    - rewrite <- !dr_c1_is. rewrite H. reflexivity. }
  assert (H2 : side2 e = side2 e').
  { apply cs_string_inj.
    - unfold side2. destruct (de_type e); try exact C1'; exact ninv_empty.
    - unfold side2. destruct (de_type e'); try exact C2'; exact ninv_empty.
    - rewrite <- !dr_c2_is. rewrite H. reflexivity. }
  assert (Hc1 : de_c1 e = de_c1 e').
  { unfold side1 in H1. rewrite <- Ht in H1. destruct (de_type e) eqn:T; try exact H1. rewrite (A1 eq_refl), (A2 (eq_sym Ht)). reflexivity. }
  assert (Hc2 : de_c2 e = de_c2 e').
  { unfold side2 in H2. rewrite <- Ht in H2. destruct (de_type e) eqn:T; try exact H2. rewrite (R1 eq_refl), (R2 (eq_sym Ht)). reflexivity. }
  assert (Hf : de_src_flag e = de_src_flag e' /\ de_dst_flag e = de_dst_flag e').
  { pose proof (f_equal dr_info H) as Hi. unfold drow_of in Hi. cbn [dr_info] in Hi. unfold diff_info in Hi.
    rewrite <- Hs, <- Hd, <- Ht in Hi.
    apply (diff_info_flags (rpeer_str (de_src e)) (rpeer_str (de_dst e)) (dtype_str (de_type e))).
    - apply rpeer_str_plain. apply S1.
    - apply rpeer_str_plain. apply D1.
    - intros E. apply N1. apply rpeer_str_inj; [apply S1|apply D1|exact E].
    - exact Hi. }
  destruct Hf as [Hf1 Hf2]. destruct e, e'. cbn in *. subst. reflexivity.
Qed.

(* ---- the md line ---- *)
Definition drow_nobar (r : drow) : Prop :=
  all_chars nobar (dr_type r) = true /\ all_chars nobar (dr_src r) = true /\ all_chars nobar (dr_dst r) = true /\
  all_chars nobar (dr_c1 r) = true /\ all_chars nobar (dr_c2 r) = true /\ all_chars nobar (dr_info r) = true.

Lemma bar_split (a a' r r' : string) :
  all_chars nobar a = true -> all_chars nobar a' = true ->
  a ++ String " " (String "|" r) = a' ++ String " " (String "|" r') -> a = a' /\ r = r'.
Proof.
  intros Ha Ha' H.
  assert (E : (a ++ " ") ++ String "|" r = (a' ++ " ") ++ String "|" r') by (rewrite !append_assoc; exact H).
  assert (Xa : all_chars nobar (a ++ " ") = true) by (rewrite all_chars_app, Ha; reflexivity).
  assert (Xa' : all_chars nobar (a' ++ " ") = true) by (rewrite all_chars_app, Ha'; reflexivity).
  destruct (split_unique nobar "|" _ _ _ _ nobar_bar Xa Xa' E) as [E1 E2].
  apply append_inj_r in E1. split; assumption.
Qed.

Lemma diff_md_line_inj r r' : drow_nobar r -> drow_nobar r' -> diff_md_line r = diff_md_line r' -> r = r'.
Proof.
  intros (A1 & A2 & A3 & A4 & A5 & A6) (B1 & B2 & B3 & B4 & B5 & B6). destruct r as [t s d c1 c2 i], r' as [t' s' d' c1' c2' i'].
  cbn [dr_type dr_src dr_dst dr_c1 dr_c2 dr_info] in *. unfold diff_md_line. cbn [dr_type dr_src dr_dst dr_c1 dr_c2 dr_info append].
  intros H. strip H.
  destruct (bar_split _ _ _ _ A1 B1 H) as [E1 H1]. strip H1.
  destruct (bar_split _ _ _ _ A2 B2 H1) as [E2 H2]. strip H2.
  destruct (bar_split _ _ _ _ A3 B3 H2) as [E3 H3]. strip H3.
  destruct (bar_split _ _ _ _ A4 B4 H3) as [E4 H4]. strip H4.
  destruct (bar_split _ _ _ _ A5 B5 H4) as [E5 H5]. strip H5.
  destruct (bar_split _ _ _ _ A6 B6 H5) as [E6 _]. subst. reflexivity.
Qed.

Definition nb2 (ch : ascii) : bool := nobar ch && not_nl ch.
Lemma nb2_nobar ch : nb2 ch = true -> nobar ch = true. Proof. unfold nb2. intros H. apply andb_true_iff in H. tauto. Qed.
Lemma nb2_notnl ch : nb2 ch = true -> not_nl ch = true. Proof. unfold nb2. intros H. apply andb_true_iff in H. tauto. Qed.
Lemma conn_nb2 ch : conn_char ch = true -> nb2 ch = true.
Proof. intros H. unfold nb2. rewrite (conn_nobar ch H), (conn_not_nl ch H). reflexivity. Qed.

Lemma peer_nb2 p : dpeer_ok p -> all_chars nb2 (rpeer_str p) = true.
Proof.
  intros [Hp Hb]. pose proof (rpeer_str_plain p Hp) as Hpl. revert Hb Hpl. generalize (rpeer_str p). intros s.
  induction s as [|c s IH]; cbn; [reflexivity|]. intros Hb Hpl. apply andb_true_iff in Hb. apply andb_true_iff in Hpl.
  destruct Hb as [B1 B2], Hpl as [P1 P2]. rewrite (IH B2 P2), andb_true_r. unfold nb2. rewrite B1, (plain_not_nl c P1). reflexivity.
Qed.

Lemma dtype_nb2 t : all_chars nb2 (dtype_str t) = true. Proof. destruct t; reflexivity. Qed.

Lemma drow_fields_nb2 e : dentry_ok e ->
  let r := drow_of e in
  all_chars nb2 (dr_type r) = true /\ all_chars nb2 (dr_src r) = true /\ all_chars nb2 (dr_dst r) = true /\
  all_chars nb2 (dr_c1 r) = true /\ all_chars nb2 (dr_c2 r) = true /\ all_chars nb2 (dr_info r) = true.
Proof.
  intros (S1 & D1 & N1 & C1 & C1' & A1 & R1). cbn zeta.
  assert (CS : forall c, cs_ninv c -> all_chars nb2 (cs_string c) = true).
  { intros c Hc. exact (all_chars_weaken conn_char nb2 _ conn_nb2 (cs_string_chars c Hc)). }
  repeat split.
  - apply dtype_nb2.
  - apply peer_nb2. exact S1.
  - apply peer_nb2. exact D1.
  - rewrite dr_c1_is. apply CS. unfold side1. destruct (de_type e); try exact C1; exact ninv_empty.
  - rewrite dr_c2_is. apply CS. unfold side2. destruct (de_type e); try exact C1'; exact ninv_empty.
  - unfold drow_of. cbn [dr_info]. unfold diff_info. destruct (de_src_flag e), (de_dst_flag e); cbn [orb andb]; try reflexivity;
      rewrite !all_chars_app, ?(peer_nb2 _ S1), ?(peer_nb2 _ D1), ?dtype_nb2; reflexivity.
Qed.

Lemma drow_nobar_of e : dentry_ok e -> drow_nobar (drow_of e).
Proof.
  intros H. destruct (drow_fields_nb2 e H) as (F1 & F2 & F3 & F4 & F5 & F6).
  repeat split; apply (all_chars_weaken nb2 nobar _ nb2_nobar); assumption.
Qed.

Lemma diff_md_line_not_nl e : dentry_ok e -> all_chars not_nl (diff_md_line (drow_of e)) = true /\ diff_md_line (drow_of e) <> "".
Proof.
  intros H. destruct (drow_fields_nb2 e H) as (F1 & F2 & F3 & F4 & F5 & F6). split; [|unfold diff_md_line; discriminate].
  unfold diff_md_line. rewrite !all_chars_app.
  rewrite (all_chars_weaken nb2 not_nl _ nb2_notnl F1), (all_chars_weaken nb2 not_nl _ nb2_notnl F2), (all_chars_weaken nb2 not_nl _ nb2_notnl F3),
          (all_chars_weaken nb2 not_nl _ nb2_notnl F4), (all_chars_weaken nb2 not_nl _ nb2_notnl F5), (all_chars_weaken nb2 not_nl _ nb2_notnl F6).
  reflexivity.
Qed.

(* the printed lines are the lines of the entries that are not 'unchanged', each once *)
Definition changedb (e : dentry) : bool := negb (dtype_eqb (de_type e) DUnchanged).

Lemma groups_partition (d : list dentry) :
  let g t ic := filter (fun e => dtype_eqb (de_type e) t && Bool.eqb (is_ic e) ic) d in
  Permutation (g DChanged false ++ g DAdded false ++ g DRemoved false ++ g DChanged true ++ g DAdded true ++ g DRemoved true)
              (filter changedb d).
Proof.
  cbn zeta. induction d as [|e t IH]; [constructor|]. cbn [filter]. unfold changedb at 1.
  destruct (de_type e), (is_ic e); cbn [dtype_eqb Bool.eqb andb negb app]; try exact IH;
    repeat rewrite <- Permutation_middle; constructor; exact IH.
Qed.

Lemma diff_lines_perm line d :
  Permutation (diff_lines line d) (map (fun e => line (drow_of e)) (filter changedb d)).
Proof.
  unfold diff_lines. cbn zeta.
  eapply Permutation_trans.
  { repeat apply Permutation_app; apply strsort_perm. }
  rewrite <- !map_app. apply Permutation_map. apply groups_partition.
Qed.

Lemma diff_lines_nonempty line d : diff_is_empty d = false -> diff_lines line d <> [].
Proof.
  intros H E. pose proof (diff_lines_perm line d) as P. rewrite E in P. apply Permutation_nil in P.
  apply map_eq_nil in P. unfold diff_is_empty in H.
  assert (F : forallb (fun e => dtype_eqb (de_type e) DUnchanged) d = true).
  { apply forallb_forall. intros e He. destruct (dtype_eqb (de_type e) DUnchanged) eqn:T; [reflexivity|].
    assert (In e (filter changedb d)) by (apply filter_In; split; [exact He|unfold changedb; rewrite T; reflexivity]).
    rewrite P in H0. destruct H0. }
  congruence.
Qed.

Definition diff_md_header : string :=
  "| diff-type | source | destination | dir1 | dir2 | workloads-diff-info |" ++ nl ++
  "|-----------|--------|-------------|------|------|---------------------|".

Theorem diff_md_inj d d' :
  Forall dentry_ok d -> Forall dentry_ok d' -> diff_md d = diff_md d' ->
  Permutation (filter changedb d) (filter changedb d').
Proof.
  intros Hd Hd' H. unfold diff_md in H.
  destruct (diff_is_empty d) eqn:E, (diff_is_empty d') eqn:E'.
  - (* nothing changed on either side *)
    assert (Z : forall q, diff_is_empty q = true -> filter changedb q = []).
    { intros q Hq. unfold diff_is_empty in Hq. rewrite forallb_forall in Hq. induction q as [|e t IH]; [reflexivity|].
      cbn [filter]. unfold changedb at 1. rewrite (Hq e (or_introl eq_refl)). cbn [negb]. apply IH. intros x Hx. apply Hq. right. exact Hx. }
    rewrite (Z d E), (Z d' E'). constructor.
  - exfalso. destruct (diff_lines diff_md_line d') eqn:L; [exact (diff_lines_nonempty _ _ E' L)|].
    rewrite join_cons in H. destruct (_ ++ _) eqn:X in H; discriminate.
  - exfalso. destruct (diff_lines diff_md_line d) eqn:L; [exact (diff_lines_nonempty _ _ E L)|].
    rewrite join_cons in H. destruct (_ ++ _) eqn:X in H; discriminate.
  - destruct (diff_lines diff_md_line d) as [|x l] eqn:L; [exfalso; exact (diff_lines_nonempty _ _ E L)|].
    destruct (diff_lines diff_md_line d') as [|x' l'] eqn:L'; [exfalso; exact (diff_lines_nonempty _ _ E' L')|].
    rewrite !join_cons in H. apply append_inj_l in H. apply append_inj_l in H.
    assert (G : forall q, Forall dentry_ok q -> Forall (fun s => all_chars not_nl s = true /\ s <> "") (diff_lines diff_md_line q)).
    { intros q Hq. apply Forall_forall. intros s Hs. apply (Permutation_in s (diff_lines_perm diff_md_line q)) in Hs.
      apply in_map_iff in Hs. destruct Hs as (e & <- & He). apply filter_In in He. rewrite Forall_forall in Hq.
      apply diff_md_line_not_nl. exact (Hq e (proj1 He)). }
    apply join_nl_inj in H; [|rewrite <- L; apply G; exact Hd|rewrite <- L'; apply G; exact Hd'].
    assert (FO : forall q, Forall dentry_ok q -> Forall dentry_ok (filter changedb q)).
    { intros q Hq. rewrite Forall_forall in *. intros e He. apply filter_In in He. exact (Hq e (proj1 He)). }
    apply (perm_map_inj_on (fun e => diff_md_line (drow_of e)) dentry_ok); [|exact (FO d Hd)|exact (FO d' Hd')|].
    + intros a b Ha Hb Hab. apply drow_of_inj; [exact Ha|exact Hb|].
      apply diff_md_line_inj; [apply drow_nobar_of; exact Ha|apply drow_nobar_of; exact Hb|exact Hab].
    + eapply Permutation_trans; [apply Permutation_sym; apply diff_lines_perm|]. rewrite L, H, <- L'. apply diff_lines_perm.
Qed.

(* the decidable form of the hypothesis, for the check *)
Definition rpeer_nobarb (p : rpeer) : bool := rpeer_printableb p && all_chars nobar (rpeer_str p).
Definition dentry_printableb (e : dentry) : bool :=
  rpeer_nobarb (de_src e) && rpeer_nobarb (de_dst e) && negb (rpeer_eqb (de_src e) (de_dst e))
  && cs_ninvb (de_c1 e) && cs_ninvb (de_c2 e)
  && (if dtype_eqb (de_type e) DAdded then cs_struct_eqb (de_c1 e) (cs_make false) else true)
  && (if dtype_eqb (de_type e) DRemoved then cs_struct_eqb (de_c2 e) (cs_make false) else true).

Lemma dentry_printableb_spec e : dentry_printableb e = true -> dentry_ok e.
Proof.
  unfold dentry_printableb, dentry_ok. rewrite !andb_true_iff. intros [[[[[[H1 H2] H3] H4] H5] H6] H7].
  assert (P : forall p, rpeer_nobarb p = true -> dpeer_ok p).
  { intros p Hp. unfold rpeer_nobarb in Hp. apply andb_true_iff in Hp. destruct Hp as [A B]. split; [|exact B].
    destruct p as [s|lo hi]; cbn [rpeer_printableb peer_ok] in *; apply andb_true_iff in A; destruct A as [A1 A2].
    - split; [exact A1|]. apply negb_true_iff in A2. exact A2.
    - lia. }
  split; [exact (P _ H1)|]. split; [exact (P _ H2)|]. split.
  { intros E. rewrite E in H3. apply negb_true_iff in H3. rewrite (proj2 (rpeer_eqb_spec _ _) eq_refl) in H3. discriminate. }
  split; [apply cs_ninvb_spec; exact H4|]. split; [apply cs_ninvb_spec; exact H5|]. split.
  - intros T. rewrite T in H6. cbn [dtype_eqb] in H6. apply cs_struct_eqb_spec in H6. exact H6.
  - intros T. rewrite T in H7. cbn [dtype_eqb] in H7. apply cs_struct_eqb_spec in H7. exact H7.
Qed.

Lemma dentries_printable d : forallb dentry_printableb d = true -> Forall dentry_ok d.
Proof. intros H. apply Forall_forall. intros e He. apply dentry_printableb_spec. rewrite forallb_forall in H. exact (H e He). Qed.

Definition dprintable_mismatches (cs : list dfmt_case) : list (nat * nat) :=
  flat_map (fun c => if forallb dentry_printableb (df_diff c) then [] else [(df_id c, 5%nat)]) cs.
