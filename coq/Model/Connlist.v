(* Connlist.v — mirror of /repo/pkg/netpol/connlist/connlist.go (getConnectionsList,
   getConnectionsBetweenPeers, includePairOfWorkloads, focus-workload filter) on top of
   Eval.v / Build.v, plus the boolean checkers that are run on the implementation's own
   output (well-formedness of a report: C05) and the comparison used by the correspondence.
   Executable definitions only. *)
From Coq Require Import List ZArith Bool String.
From NP Require Import IntervalSet ConnSet World Eval Build.
Import ListNotations.
Open Scope string_scope.
Open Scope list_scope.
Open Scope Z_scope.

(* a peer as a report names it *)
Inductive rpeer := RW (s : string) | RIP (lo hi : Z).
Definition rpeer_eqb (a b : rpeer) : bool :=
  match a, b with
  | RW s, RW t => String.eqb s t
  | RIP a1 a2, RIP b1 b2 => (a1 =? b1) && (a2 =? b2)
  | _, _ => false
  end.
Definition rpeer_is_ip (a : rpeer) : bool := match a with RIP _ _ => true | RW _ => false end.

Record rentry := mkRE { re_src : rpeer; re_dst : rpeer; re_conn : connset }.

(* evaluation peer + how the report names it + Name()/Namespace() used by the focus filter *)
Record mpeer := mkMP { mp_r : rpeer; mp_pod : option pod; mp_ip : ivl; mp_name : string; mp_ns : string }.

Definition IngressPodName : string := "ingress-controller".
Definition IngressPodNamespace : string := "ingress-controller-ns".

Definition focus_matches (focus : string) (name ns : string) : bool :=
  String.eqb focus "" || String.eqb name focus || String.eqb (ns ++ "/" ++ name) focus.
Definition mp_focus (focus : string) (m : mpeer) : bool := focus_matches focus (mp_name m) (mp_ns m).

Definition mpeers_of (w : world) (blocks : list ivl) : list mpeer :=
  map (fun b => mkMP (RIP (fst b) (snd b)) None b "" "") blocks ++
  map (fun e => mkMP (RW (fst e)) (Some (snd e)) (0, 0) (wl_name_of (snd e)) (p_ns (snd e)))
      (workloads_of (w_pods w) []).

Definition eval_peer (w : world) (m : mpeer) : outcome peer :=
  match mp_pod m with
  | Some p => pod_peer w p
  | None => Ok (PIP (mp_ip m))
  end.

Definition include_pair (focus : string) (s d : mpeer) : bool :=
  negb (rpeer_is_ip (mp_r s) && rpeer_is_ip (mp_r d))
  && negb (rpeer_eqb (mp_r s) (mp_r d))
  && (mp_focus focus s || mp_focus focus d).

(* AllAllowedConnectionsBetweenWorkloadPeers *)
Definition pair_conns (w : world) (s d : mpeer) : outcome connset :=
  do sp <- eval_peer w s;
  do dp <- eval_peer w d;
  all_conns w sp dp.

Fixpoint row_conns (w : world) (focus : string) (s : mpeer) (ds : list mpeer) : outcome (list rentry) :=
  match ds with
  | [] => Ok []
  | d :: t =>
      if include_pair focus s d
      then do c <- pair_conns w s d;
           do rest <- row_conns w focus s t;
           Ok (if cs_isempty c then rest else mkRE (mp_r s) (mp_r d) c :: rest)
      else row_conns w focus s t
  end.

Fixpoint all_rows (w : world) (focus : string) (ss ds : list mpeer) : outcome (list rentry) :=
  match ss with
  | [] => Ok []
  | s :: t => do a <- row_conns w focus s ds; do b <- all_rows w focus t ds; Ok (a ++ b)
  end.

Definition ip_partition_of (w : world) : list ivl :=
  match referenced_blocks (w_nps w) with Ok b => ip_partition b | Err _ => [] end.

Record list_result := mkLR { lr_entries : list rentry; lr_peers : list rpeer; lr_warn : bool }.

(* getConnectionsList without Ingress/Route objects.
   [has_ingress]: the ingress analyzer is non-empty (then focus = ingress-controller exists) *)
Definition list_world (w : world) (focus : string) (has_ingress : bool) : outcome list_result :=
  match w_pods w with
  | [] => Ok (mkLR [] [] false)
  | _ =>
      if negb (owners_consistent (w_pods w)) then Err (ErrConflict cf_owner_labels)
      else
        do blocks <- referenced_blocks (w_nps w);
        let peers := mpeers_of w (ip_partition blocks) in
        let exists_focus :=
            existsb (mp_focus focus) peers || (String.eqb focus IngressPodName && has_ingress) in
        if negb (String.eqb focus "") && negb exists_focus then Ok (mkLR [] [] true)
        else do es <- all_rows w focus peers peers;
             Ok (mkLR es (map mp_r peers) false)
  end.

Definition list_objs (os : list obj) (focus : string) : outcome list_result :=
  do w <- build_world os;
  list_world w focus false.

(* ---------- verified checker: a report is a well-formed canonical relation (C05) ---------- *)
Definition r_ps_wfb (ps : portset) : bool :=
  canonb (ps_ports ps) && withinb minPort maxPort (ps_ports ps).
Definition cs_canonb (c : connset) : bool :=
  forallb (fun p => match cs_get c p with
                    | None => true
                    | Some ps => r_ps_wfb ps && negb (iempty (ps_ports ps)) && negb (cs_all c)
                                 && match ps_named ps, ps_excl ps with [], [] => true | _, _ => false end
                    end) all_protos
  && negb (cs_is_all_without_allowall c).

Fixpoint nodup_keys (es : list rentry) : bool :=
  match es with
  | [] => true
  | e :: t => negb (existsb (fun f => rpeer_eqb (re_src e) (re_src f) && rpeer_eqb (re_dst e) (re_dst f)) t)
              && nodup_keys t
  end.

(* IP peers (in any order) are single ranges, pairwise disjoint, covering [0, maxIP]:
   sort by lower bound and require exact adjacency *)
Fixpoint insert_ivl (v : ivl) (l : list ivl) : list ivl :=
  match l with
  | [] => [v]
  | u :: t => if fst v <? fst u then v :: l else u :: insert_ivl v t
  end.
Fixpoint tiles_from (lo : Z) (l : list ivl) : bool :=
  match l with
  | [] => lo =? maxIP + 1
  | (a, b) :: t => (a =? lo) && (a <=? b) && tiles_from (b + 1) t
  end.
Definition ip_peers_of (ps : list rpeer) : list ivl :=
  flat_map (fun p => match p with RIP a b => [(a, b)] | RW _ => [] end) ps.
Definition ip_partition_okb (ps : list rpeer) : bool :=
  tiles_from 0 (fold_right insert_ivl [] (ip_peers_of ps)).

Fixpoint nodup_rpeers (ps : list rpeer) : bool :=
  match ps with
  | [] => true
  | p :: t => negb (existsb (rpeer_eqb p) t) && nodup_rpeers t
  end.

Definition entry_okb (peers : list rpeer) (e : rentry) : bool :=
  negb (rpeer_eqb (re_src e) (re_dst e))
  && negb (rpeer_is_ip (re_src e) && rpeer_is_ip (re_dst e))
  && negb (cs_isempty (re_conn e))
  && cs_canonb (re_conn e)
  && (existsb (rpeer_eqb (re_src e)) peers) && (existsb (rpeer_eqb (re_dst e)) peers).

(* [extra] : peers that may appear in entries without being in the peers list ({ingress-controller}) *)
Definition wf_report_b (es : list rentry) (peers extra : list rpeer) : bool :=
  nodup_keys es && nodup_rpeers peers && ip_partition_okb peers
  && forallb (entry_okb (extra ++ peers)) es.

(* ---------- comparison of two reports (same keys, structurally equal canonical sets) ---------- *)
Definition find_entry (s d : rpeer) (es : list rentry) : option connset :=
  match find (fun f => rpeer_eqb s (re_src f) && rpeer_eqb d (re_dst f)) es with
  | Some f => Some (re_conn f)
  | None => None
  end.
Definition entries_sub (a b : list rentry) : bool :=
  forallb (fun e => match find_entry (re_src e) (re_dst e) b with
                    | Some c => cs_struct_eqb c (re_conn e)
                    | None => false
                    end) a.
Definition entries_eqb (a b : list rentry) : bool :=
  entries_sub a b && entries_sub b a && Nat.eqb (List.length a) (List.length b).
Definition rpeers_eqb (a b : list rpeer) : bool :=
  forallb (fun p => existsb (rpeer_eqb p) b) a && forallb (fun p => existsb (rpeer_eqb p) a) b
  && Nat.eqb (List.length a) (List.length b).

(* ---------- correspondence cases ---------- *)
Inductive obs_list :=
| ObsOk (es : list rentry) (peers : list rpeer) (warn : bool)
| ObsErr
| ObsPanic.

Record list_case := mkLC { lc_id : nat; lc_objs : list obj; lc_focus : string; lc_obs : obs_list }.

(* 0 agree; 1 ok/err class differs; 2 entries differ; 3 peers differ; 4 warning differs;
   5 implementation panicked *)
Definition list_case_code (c : list_case) : nat :=
  match lc_obs c, list_objs (lc_objs c) (lc_focus c) with
  | ObsPanic, _ => 5%nat
  | ObsErr, Err _ => 0%nat
  | ObsErr, Ok _ => 1%nat
  | ObsOk _ _ _, Err _ => 1%nat
  | ObsOk es ps wn, Ok r =>
      if negb (entries_eqb es (lr_entries r)) then 2%nat
      else if negb (rpeers_eqb ps (lr_peers r)) then 3%nat
      else if negb (Bool.eqb wn (lr_warn r)) then 4%nat else 0%nat
  end.

(* 0 well-formed (or no report) ; 6 the implementation's report is not well-formed *)
Definition list_case_wf_code (c : list_case) : nat :=
  match lc_obs c with
  | ObsOk [] [] _ => 0%nat     (* nothing analysed (no workloads / focus workload absent): no peers to check *)
  | ObsOk es ps _ => if wf_report_b es ps [RW "{ingress-controller}"] then 0%nat else 6%nat
  | _ => 0%nat
  end.

Definition list_mismatches (cs : list list_case) : list (nat * nat) :=
  flat_map (fun c => let k := list_case_code c in
                     let k2 := list_case_wf_code c in
                     (if Nat.eqb k 0 then [] else [(lc_id c, k)]) ++
                     (if Nat.eqb k2 0 then [] else [(lc_id c, k2)])) cs.

(* ---------- relations between two reports, decided pointwise (C14, C16, C17, C13, C06) ----------
   A point is a workload (by its report name) or a single address.  Two reports with different IP
   partitions are compared on the workloads and on the lower end points of all IP ranges of both
   reports: inside one block of the common refinement neither report changes its answer. *)
Inductive pt := PW (s : string) | PA (a : Z).

Definition covers (p : rpeer) (x : pt) : bool :=
  match p, x with
  | RW s, PW t => String.eqb s t
  | RIP lo hi, PA a => (lo <=? a) && (a <=? hi)
  | _, _ => false
  end.

Definition lookup_pt (es : list rentry) (s d : pt) : option connset :=
  match find (fun e => covers (re_src e) s && covers (re_dst e) d) es with
  | Some e => Some (re_conn e)
  | None => None
  end.

(* the peers list names every end of every entry (part of well-formedness, checked by wf_report_b) *)
Definition pts_of (es : list rentry) (peers : list rpeer) : list pt :=
  flat_map (fun p => match p with RW s => [PW s] | RIP lo _ => [PA lo] end) peers.

Definition copt_eq (a b : option connset) : bool :=
  match a, b with
  | None, None => true
  | Some x, Some y => cs_struct_eqb x y
  | _, _ => false
  end.
Definition copt_le (a b : option connset) : bool :=
  match a, b with
  | None, _ => true
  | Some x, None => cs_isempty x
  | Some x, Some y => cs_containedin x y
  end.

Definition pt_is (names : list string) (x : pt) : bool :=
  match x with PW s => str_mem s names | PA _ => false end.

(* rel: 0 equal, 1 first <= second, 2 first >= second.
   [skip_src] / [skip_dst]: workloads excluded as source / as destination (locality edits) *)
Definition reports_rel_b (rel : nat) (skip_src skip_dst : list string)
           (es1 : list rentry) (ps1 : list rpeer) (es2 : list rentry) (ps2 : list rpeer) : bool :=
  let pts := pts_of es1 ps1 ++ pts_of es2 ps2 in
  forallb (fun s => forallb (fun d =>
     pt_is skip_src s || pt_is skip_dst d ||
     match s, d with PA _, PA _ => true | _, _ => false end ||      (* two addresses are never an entry *)
     let a := lookup_pt es1 s d in let b := lookup_pt es2 s d in
     match rel with
     | 0%nat => copt_eq a b
     | 1%nat => copt_le a b
     | _ => copt_le b a
     end) pts) pts.

Record meta_case := mkMC { mc_id : nat; mc_rel : nat; mc_skip_src : list string; mc_skip_dst : list string;
                           mc_es1 : list rentry; mc_ps1 : list rpeer; mc_es2 : list rentry; mc_ps2 : list rpeer }.

Definition meta_mismatches (cs : list meta_case) : list (nat * nat) :=
  flat_map (fun c => if reports_rel_b (mc_rel c) (mc_skip_src c) (mc_skip_dst c) (mc_es1 c) (mc_ps1 c) (mc_es2 c) (mc_ps2 c)
                     then [] else [(mc_id c, mc_rel c)]) cs.

(* ---------- focus filter relation between two reports (C16) ---------- *)
Record focus_case := mkFC { fc_id : nat; fc_matching : list string;     (* workloads whose name matches the focus *)
                            fc_full : list rentry; fc_focused : list rentry }.
Definition focus_filter_b (c : focus_case) : bool :=
  let m p := match p with RW s => str_mem s (fc_matching c) | RIP _ _ => false end in
  entries_eqb (filter (fun e => m (re_src e) || m (re_dst e)) (fc_full c)) (fc_focused c).
Definition focus_mismatches (cs : list focus_case) : list (nat * nat) :=
  flat_map (fun c => if focus_filter_b c then [] else [(fc_id c, 1%nat)]) cs.
