(* DotInj.v — the dot output of `list` determines the report: the edge lines can be told from every other line
   of the graph (a quoted string followed by " -> "), so two printable reports with the same dot output have
   the same entries, whatever peer lists they were rendered with. *)
From Coq Require Import List ZArith Bool String Ascii Lia Permutation.
From NP Require Import IntervalSet ConnSet IntervalSetProofs ConnSetProofs World Build Connlist Diff Format
     SortGeneric FormatProofs StrInj ConnInj RowInj.
Import ListNotations.
Open Scope string_scope.

Definition quotec : ascii := """"%char.
Definition tabc : ascii := ascii_of_nat 9.

Fixpoint after_q (s : string) : string :=
  match s with
  | EmptyString => EmptyString
  | String c t => if Ascii.eqb c quotec then t else after_q t
  end.

(* tab, a quoted string, then " -> " *)
Definition is_edge (l : string) : bool :=
  match l with
  | String c1 (String c2 r) => Ascii.eqb c1 tabc && Ascii.eqb c2 quotec && prefix " -> " (after_q r)
  | _ => false
  end.

Lemma after_q_app a r : all_chars not_quote a = true -> after_q (a ++ String quotec r) = r.
Proof.
  induction a as [|c a IH]; cbn; intros H; [reflexivity|].
  apply andb_true_iff in H. destruct H as [H1 H2]. unfold not_quote in H1.
  unfold quotec. destruct (Ascii.eqb c """"); [discriminate|]. apply IH. exact H2.
Qed.

Lemma plain_not_quote ch : plain ch = true -> not_quote ch = true.
Proof. unfold plain, not_quote. intros H. rewrite !andb_true_iff in H. tauto. Qed.

Lemma edge_shape r :
  dot_edge_line r = String tabc (String quotec (r_src r ++ String quotec (" -> " ++ String quotec (r_dst r ++ String quotec
     (" [label=" ++ String quotec (r_conn r ++ String quotec (" color=" ++ qq "gold2" ++ " fontcolor=" ++ qq "darkgreen" ++ " weight="
      ++ (if String.leb (r_src r) (r_dst r) then "0.5" else "1") ++ "]"))))))).
Proof.
  unfold dot_edge_line, tab, qq. cbn [append]. rewrite !append_assoc. cbn [append]. reflexivity.
Qed.

Lemma peer_shape p :
  dot_peer_line p = String tabc (String quotec (dp_str p ++ String quotec (" [label=" ++ qq (if dp_ext p then dp_str p else dp_label p)
      ++ " color=" ++ qq (if dp_ip p then "red2" else "blue") ++ " fontcolor=" ++ qq (if dp_ip p then "red2" else "blue") ++ "]"))).
Proof.
  unfold dot_peer_line, tab. unfold qq at 1. cbn [append]. rewrite !append_assoc. cbn [append]. reflexivity.
Qed.

Lemma is_edge_edge r : all_chars not_quote (r_src r) = true -> is_edge (dot_edge_line r) = true.
Proof. intros H. rewrite edge_shape. cbn [is_edge]. rewrite (after_q_app _ _ H). reflexivity. Qed.

Lemma is_edge_peer p : all_chars not_quote (dp_str p) = true -> is_edge (dot_peer_line p) = false.
Proof. intros H. rewrite peer_shape. cbn [is_edge]. rewrite (after_q_app _ _ H). reflexivity. Qed.

(* ---- the peers the graph is drawn with ---- *)
Definition dpeer_ok (p : dpeer) : Prop :=
  all_chars plain (dp_str p) = true /\ all_chars not_nl (dp_label p) = true /\ all_chars not_nl (dp_ns p) = true.

Lemma dot_lookup_ok ps s : Forall dpeer_ok ps -> all_chars plain s = true -> dpeer_ok (dot_lookup ps s).
Proof.
  intros Hps Hs. induction ps as [|p ps IH]; cbn [dot_lookup].
  - unfold dpeer_ok. cbn. split; [exact Hs|]. split; [|reflexivity]. apply (all_chars_weaken plain); [exact plain_not_nl|exact Hs].
  - inversion Hps as [|? ? Hp Hr]; subst. destruct (String.eqb (dp_str p) s); [exact Hp|apply IH; exact Hr].
Qed.

Lemma dedup_adj_in (l : list string) s : In s (dedup_adj l) -> In s l.
Proof.
  revert s. induction l as [|x l IH]; intros s H; [exact H|]. destruct l as [|y t]; [exact H|].
  cbn [dedup_adj] in H. destruct (String.eqb x y).
  - right. apply IH. exact H.
  - destruct H as [H|H]; [left; exact H|right; apply IH; exact H].
Qed.

Definition dot_visited (es : list rentry) (ps : list dpeer) : list dpeer :=
  map (dot_lookup ps) (dedup_adj (strsort (dot_strs es ps))).

Lemma visited_ok es ps : Forall entry_ok es -> Forall dpeer_ok ps -> Forall dpeer_ok (dot_visited es ps).
Proof.
  intros Hes Hps. unfold dot_visited. apply Forall_forall. intros p Hp. apply in_map_iff in Hp.
  destruct Hp as (s & <- & Hs). apply dot_lookup_ok; [exact Hps|].
  apply dedup_adj_in in Hs. apply (Permutation_in s (strsort_perm _)) in Hs. unfold dot_strs in Hs.
  apply in_app_or in Hs. destruct Hs as [Hs|Hs].
  - apply in_flat_map in Hs. destruct Hs as (e & He & Hs). rewrite Forall_forall in Hes. destruct (Hes e He) as (S1 & D1 & _).
    destruct Hs as [<-|[<-|[]]]; apply rpeer_str_plain; assumption.
  - apply in_map_iff in Hs. destruct Hs as (q & <- & Hq). apply filter_In in Hq. rewrite Forall_forall in Hps.
    exact (proj1 (Hps q (proj1 Hq))).
Qed.

(* ---- every line but the edges fails the test, and no line holds a line break ---- *)
Definition line_ok (s : string) : Prop := all_chars not_nl s = true /\ s <> "".

Lemma d2u_not_nl s : all_chars not_nl s = true -> all_chars not_nl (dash_to_underscore s) = true.
Proof.
  induction s as [|c s IH]; cbn; intros H; [reflexivity|]. apply andb_true_iff in H. destruct H as [H1 H2].
  rewrite (IH H2). destruct (Ascii.eqb c "-"); [reflexivity|rewrite H1; reflexivity].
Qed.

Lemma peer_line_ok p : dpeer_ok p -> line_ok (dot_peer_line p) /\ is_edge (dot_peer_line p) = false.
Proof.
  intros (H1 & H2 & H3).
  assert (N1 : all_chars not_nl (dp_str p) = true) by (apply (all_chars_weaken plain); [exact plain_not_nl|exact H1]).
  split; [split|].
  - unfold dot_peer_line, qq, tab. rewrite !all_chars_app. rewrite N1.
    destruct (dp_ext p); destruct (dp_ip p); rewrite ?N1, ?H2; reflexivity.
  - rewrite peer_shape. discriminate.
  - apply is_edge_peer. apply (all_chars_weaken plain); [exact plain_not_quote|exact H1].
Qed.

Lemma group_lines visited ns : Forall dpeer_ok visited -> all_chars not_nl ns = true ->
  Forall (fun l => line_ok l /\ is_edge l = false) (dot_ns_group visited ns).
Proof.
  intros Hv Hn. unfold dot_ns_group. apply Forall_app. split; [|apply Forall_app; split].
  - apply Forall_cons; [|apply Forall_cons; [|apply Forall_cons; [|apply Forall_nil]]].
    + split; [split|].
      * unfold qq, tab. rewrite !all_chars_app. rewrite (d2u_not_nl _ Hn). reflexivity.
      * discriminate.
      * reflexivity.
    + split; [split|]; [reflexivity|discriminate|reflexivity].
    + split; [split|]; [reflexivity|discriminate|reflexivity].
  - apply Forall_forall. intros l Hl. apply (Permutation_in l (strsort_perm _)) in Hl. apply in_map_iff in Hl.
    destruct Hl as (p & <- & Hp). apply filter_In in Hp. rewrite Forall_forall in Hv.
    destruct (peer_line_ok p (Hv p (proj1 Hp))) as ((L1 & L2) & _). split; [split|].
    + unfold tab. rewrite all_chars_app. rewrite L1. reflexivity.
    + discriminate.
    + rewrite peer_shape. reflexivity.
  - apply Forall_cons; [|apply Forall_cons; [|apply Forall_nil]].
    + split; [split|].
      * unfold qq, tab. rewrite !all_chars_app. rewrite Hn. reflexivity.
      * discriminate.
      * reflexivity.
    + split; [split|]; [reflexivity|discriminate|reflexivity].
Qed.

Definition dot_pre (visited : list dpeer) : list string :=
  (["digraph {"] ++ flat_map (dot_ns_group visited) (dedup_adj (strsort (map dp_ns (filter (fun p => negb (dp_ext p)) visited))))
   ++ strsort (map dot_peer_line (filter dp_ext visited)))%list.

Lemma dot_render_shape visited edges : dot_render visited edges = join nl (dot_pre visited ++ edges ++ ["}"])%list.
Proof. unfold dot_render, dot_pre. rewrite <- !app_assoc. reflexivity. Qed.

Lemma pre_lines visited : Forall dpeer_ok visited -> Forall (fun l => line_ok l /\ is_edge l = false) (dot_pre visited).
Proof.
  intros Hv. unfold dot_pre. apply Forall_app. split; [|apply Forall_app; split].
  - apply Forall_cons; [|apply Forall_nil]. split; [split|reflexivity]; [reflexivity|discriminate].
  - apply Forall_forall. intros l Hl. apply in_flat_map in Hl. destruct Hl as (ns & Hns & Hl).
    apply dedup_adj_in in Hns. apply (Permutation_in ns (strsort_perm _)) in Hns. apply in_map_iff in Hns.
    destruct Hns as (p & <- & Hp). apply filter_In in Hp. pose proof Hv as Hv2. rewrite Forall_forall in Hv2.
    destruct (Hv2 p (proj1 Hp)) as (_ & _ & N3).
    pose proof (group_lines visited (dp_ns p) Hv N3) as G. rewrite Forall_forall in G. exact (G l Hl).
  - apply Forall_forall. intros l Hl. apply (Permutation_in l (strsort_perm _)) in Hl. apply in_map_iff in Hl.
    destruct Hl as (p & <- & Hp). apply filter_In in Hp. rewrite Forall_forall in Hv. apply peer_line_ok. exact (Hv p (proj1 Hp)).
Qed.

Lemma filter_none {A} (f : A -> bool) l : Forall (fun x => f x = false) l -> filter f l = [].
Proof. induction 1 as [|x l Hx _ IH]; cbn; [reflexivity|]. rewrite Hx. exact IH. Qed.
Lemma filter_all {A} (f : A -> bool) l : Forall (fun x => f x = true) l -> filter f l = l.
Proof. induction 1 as [|x l Hx _ IH]; cbn; [reflexivity|]. rewrite Hx, IH. reflexivity. Qed.

(* ---- the edge lines ---- *)
Lemma edge_line_ok e : entry_ok e -> line_ok (dot_edge_line (row_of e)) /\ is_edge (dot_edge_line (row_of e)) = true.
Proof.
  intros (S1 & D1 & C1). split; [split|].
  - unfold dot_edge_line, qq, tab, row_of. cbn [r_src r_dst r_conn]. rewrite !all_chars_app.
    rewrite (all_chars_weaken plain not_nl _ plain_not_nl (rpeer_str_plain _ S1)).
    rewrite (all_chars_weaken plain not_nl _ plain_not_nl (rpeer_str_plain _ D1)).
    rewrite (all_chars_weaken conn_char not_nl _ conn_not_nl (cs_string_chars _ C1)).
    destruct (String.leb _ _); reflexivity.
  - rewrite edge_shape. discriminate.
  - apply is_edge_edge. cbn [row_of r_src]. apply (all_chars_weaken plain); [exact plain_not_quote|apply rpeer_str_plain; exact S1].
Qed.

Lemma edge_line_inj e e' : entry_ok e -> entry_ok e' ->
  dot_edge_line (row_of e) = dot_edge_line (row_of e') -> e = e'.
Proof.
  intros He He' H. pose proof He as (S1 & D1 & C1). pose proof He' as (S2 & D2 & C2).
  rewrite !edge_shape in H. cbn [row_of r_src r_dst r_conn] in H.
  injection H as H.
  assert (Q : forall p, peer_ok p -> all_chars not_quote (rpeer_str p) = true).
  { intros p Hp. apply (all_chars_weaken plain); [exact plain_not_quote|apply rpeer_str_plain; exact Hp]. }
  destruct (split_unique not_quote quotec _ _ _ _ not_quote_quote (Q _ S1) (Q _ S2) H) as [E1 H2].
  injection H2 as H2.
  destruct (split_unique not_quote quotec _ _ _ _ not_quote_quote (Q _ D1) (Q _ D2) H2) as [E2 H3].
  injection H3 as H3.
  assert (QC : forall c, cs_ninv c -> all_chars not_quote (cs_string c) = true).
  { intros c Hc. apply (all_chars_weaken conn_char); [exact conn_not_quote|apply cs_string_chars; exact Hc]. }
  destruct (split_unique not_quote quotec _ _ _ _ not_quote_quote (QC _ C1) (QC _ C2) H3) as [E3 _].
  apply row_of_inj; [exact He|exact He'|]. unfold row_of. rewrite E1, E2, E3. reflexivity.
Qed.

Theorem list_dot_inj es es' ps ps' :
  Forall entry_ok es -> Forall entry_ok es' -> Forall dpeer_ok ps -> Forall dpeer_ok ps' ->
  list_dot es ps = list_dot es' ps' -> Permutation es es'.
Proof.
  intros Hes Hes' Hps Hps' H. unfold list_dot in H. rewrite !dot_render_shape in H.
  fold (dot_visited es ps) in H. fold (dot_visited es' ps') in H.
  set (f := fun e => dot_edge_line (row_of e)) in *.
  assert (G : forall q, Forall entry_ok q -> Forall (fun l => line_ok l /\ is_edge l = true) (strsort (map f q))).
  { intros q Hq. apply Forall_forall. intros s Hs. apply (Permutation_in s (strsort_perm (map f q))) in Hs.
    apply in_map_iff in Hs. destruct Hs as (e & <- & He). rewrite Forall_forall in Hq. apply edge_line_ok. exact (Hq e He). }
  assert (L : forall vis q, Forall dpeer_ok vis -> Forall entry_ok q ->
              Forall (fun s => all_chars not_nl s = true /\ s <> "") (dot_pre vis ++ strsort (map f q) ++ ["}"])%list).
  { intros vis q Hv Hq. apply Forall_app. split; [|apply Forall_app; split].
    - eapply Forall_impl; [|apply pre_lines; exact Hv]. cbn. intros a [A _]. exact A.
    - eapply Forall_impl; [|apply G; exact Hq]. cbn. intros a [A _]. exact A.
    - apply Forall_cons; [|apply Forall_nil]. split; [reflexivity|discriminate]. }
  apply join_nl_inj in H; [|apply L; [apply visited_ok; assumption|exact Hes]|apply L; [apply visited_ok; assumption|exact Hes']].
  assert (F : forall vis q, Forall dpeer_ok vis -> Forall entry_ok q ->
              filter is_edge (dot_pre vis ++ strsort (map f q) ++ ["}"])%list = strsort (map f q)).
  { intros vis q Hv Hq. rewrite !filter_app. rewrite filter_none.
    - rewrite filter_all; [cbn; rewrite app_nil_r; reflexivity|].
      eapply Forall_impl; [|apply G; exact Hq]. cbn. intros a [_ A]. exact A.
    - eapply Forall_impl; [|apply pre_lines; exact Hv]. cbn. intros a [_ A]. exact A. }
  apply (f_equal (filter is_edge)) in H.
  rewrite !F in H by (try apply visited_ok; assumption).
  apply (perm_map_inj_on f entry_ok); [exact edge_line_inj|exact Hes|exact Hes'|].
  eapply Permutation_trans; [apply Permutation_sym; apply strsort_perm|]. rewrite H. apply strsort_perm.
Qed.

(* ---- the domain is decidable: the check evaluates it on the peers list of every implementation result ---- *)
Definition dpeer_printableb (p : dpeer) : bool :=
  all_chars plain (dp_str p) && all_chars not_nl (dp_label p) && all_chars not_nl (dp_ns p).

Lemma dpeers_printable ps : forallb dpeer_printableb ps = true -> Forall dpeer_ok ps.
Proof.
  intros H. apply Forall_forall. intros p Hp. rewrite forallb_forall in H. specialize (H p Hp).
  unfold dpeer_printableb in H. rewrite !andb_true_iff in H. unfold dpeer_ok. tauto.
Qed.

(* codes: 7 an entry, 8 a peer of the peers list is outside the domain of list_dot_inj *)
Definition dot_printable_mismatches (cs : list dot_case) : list (nat * nat) :=
  flat_map (fun c =>
    ((if forallb entry_printableb (dc_entries c) then [] else [(dc_id c, 7%nat)]) ++
     (if forallb dpeer_printableb (dc_peers c) then [] else [(dc_id c, 8%nat)]))%list) cs.
