(* Pipeline.v — from the documents of a directory to the result of `list`: classification of documents,
   error accumulation and the stop-on-first-error / fatal-error control flow of
     /repo/pkg/manifests/parser/parser.go (ResourceInfoListToK8sObjectsList),
     /repo/pkg/netpol/connlist/connlist.go (ConnlistFromDirPath, ConnlistFromResourceInfos, stopProcessing, hasFatalError).
   The cli-runtime resource builder is represented by its contract: every decodable document of every
   readable file is delivered, an unreadable / syntactically broken file yields one error and no document
   (assumed, then sampled by the check).  Executable definitions only. *)
From Coq Require Import List ZArith Bool String.
From NP Require Import IntervalSet ConnSet World Eval Build Connlist.
Import ListNotations.

Inductive doc :=
| DRelevant (o : obj)       (* a kind the analysis uses, decoded *)
| DOtherKind                (* decoded, of a kind the analysis does not use: skipped *)
| DSchemaBad                (* a used kind that fails conversion from unstructured: malformedYamlDoc, severe *)
| DBroken.                  (* a file the builder cannot read / parse: FailedReadingFile, severe *)

Inductive severity := Warning | Severe | Fatal.
Definition sev_eqb (a b : severity) : bool :=
  match a, b with Warning, Warning | Severe, Severe | Fatal, Fatal => true | _, _ => false end.

Definition relevant_objs (docs : list doc) : list obj :=
  flat_map (fun d => match d with DRelevant o => [o] | _ => [] end) docs.

Definition is_workload_obj (o : obj) : bool := match o with OPod _ | OWorkload _ => true | _ => false end.
Definition is_policy_obj (o : obj) : bool := match o with ONetpol _ | OAnp _ | OBanp _ => true | _ => false end.

(* the errors accumulated before the analysis starts *)
Definition pre_errors (docs : list doc) : list severity :=
  flat_map (fun d => match d with DBroken | DSchemaBad => [Severe] | _ => [] end) docs
  ++ (if existsb is_workload_obj (relevant_objs docs) then [] else [Severe])      (* no workload resources found *)
  ++ (if existsb is_policy_obj (relevant_objs docs) then [] else [Warning]).      (* no network policy resources found *)

Inductive presult :=
| PErr (errs : list severity)                         (* an error is returned, no result *)
| POk (entries : list rentry) (errs : list severity). (* a result and Errors() *)

Definition has_broken (docs : list doc) : bool := existsb (fun d => match d with DBroken => true | _ => false end) docs.

Definition list_pipeline (stop : bool) (focus : string) (docs : list doc) : presult :=
  let errs := pre_errors docs in
  if stop && has_broken docs then PErr errs                      (* the builder's error is returned as is *)
  else if stop && existsb (sev_eqb Severe) errs then POk [] errs (* stopProcessing: empty result *)
  else match list_objs (relevant_objs docs) focus with
       | Ok r => POk (lr_entries r) errs
       | Err _ => PErr (errs ++ [Fatal])
       end.
