# Shared plumbing for all property checks: builds (Coq, Go via overlay), coqc evaluation of
# generated case files, known findings, replays, evidence, verdict and exit code.
import fcntl, hashlib, json, os, random, re, shutil, subprocess, sys, tempfile, time

VERIF = os.path.dirname(os.path.dirname(os.path.dirname(os.path.abspath(__file__))))
REPO = os.environ.get('VERIF_REPO', '/repo')
COQ = os.path.join(VERIF, 'coq')
BUILD = os.environ.get('VERIF_BUILD', os.path.join(VERIF, 'build'))
# where evidence/ and replays/ are written (default: /verif itself; the seeded-mutant regression writes elsewhere)
OUT = os.environ.get('VERIF_OUT', VERIF)
GOENV = dict(os.environ, GOFLAGS='-mod=mod', GOPROXY='off', GOSUMDB='off', GOTOOLCHAIN='local',
             CGO_ENABLED='0')
COQ_Q = ['-Q', os.path.join(COQ, 'Model'), 'NP', '-Q', os.path.join(COQ, 'Proofs'), 'NP',
         '-Q', os.path.join(COQ, 'Properties'), 'NP', '-Q', os.path.join(COQ, 'Gen'), 'NP']

TRUSTED_BASE = [
    'Coq 8.16.1 kernel (coqc, full .vo builds; vm_compute used to evaluate cases and in Example/_refuted proofs; no native_compute)',
    'no axioms: every property theorem prints "Closed under the global context" (checked on every run)',
    'hand-written Gallina model (coq/Model) tied to /repo by this run\'s correspondence check (differential testing, generator-bounded)',
    'Python generators/emitters (checks/), Go harness injected with `go build -tags verif -overlay` (harness/go), canonicalisers',
    'third-party code represented by its canonical results: np-guard/models interval+netset, apimachinery label selectors, YAML/JSON decoding',
]

GATE_RE = re.compile(r'\b(Admitted|admit|Axiom|Parameter|Conjecture|bypass_check)\b|Unset\s+Guard|Unset\s+Positivity|Unset\s+Universe|type-in-type|impredicative-set')


def sh(cmd, timeout=1200, cwd=None, env=None, input=None):
    p = subprocess.run(cmd, cwd=cwd, env=env, input=input, stdout=subprocess.PIPE,
                       stderr=subprocess.PIPE, text=True, timeout=timeout)
    return p.returncode, p.stdout, p.stderr


class Lock:
    def __init__(self, name):
        os.makedirs(BUILD, exist_ok=True)
        self.path = os.path.join(BUILD, name + '.lock')

    def __enter__(self):
        self.f = open(self.path, 'w')
        fcntl.flock(self.f, fcntl.LOCK_EX)
        return self

    def __exit__(self, *a):
        fcntl.flock(self.f, fcntl.LOCK_UN)
        self.f.close()


def strip_coq_comments(text):
    out, depth, i = [], 0, 0
    while i < len(text):
        if text.startswith('(*', i):
            depth += 1; i += 2
        elif text.startswith('*)', i) and depth > 0:
            depth -= 1; i += 2
        else:
            if depth == 0:
                out.append(text[i])
            i += 1
    return ''.join(out)


def coq_sources():
    res = []
    for sub in ('Model', 'Proofs', 'Properties', 'Gen'):
        d = os.path.join(COQ, sub)
        if os.path.isdir(d):
            for f in sorted(os.listdir(d)):
                if f.endswith('.v'):
                    res.append(os.path.join(d, f))
    return res


def gate_scan():
    """No Admitted/admit/Axiom/Parameter/... anywhere in the development (comments excluded)."""
    bad = []
    for f in coq_sources():
        txt = strip_coq_comments(open(f).read())
        # string literals may legitimately contain words; drop them
        txt = re.sub(r'"(?:[^"]|"")*"', '""', txt)
        for m in GATE_RE.finditer(txt):
            bad.append('%s: %s' % (os.path.relpath(f, VERIF), m.group(0)))
    return bad


def build_coq(log):
    """Regenerate Gen/SrcFacts.v from /repo, then a full .vo build (make, never -vos)."""
    with Lock('coq'):
        from . import srcfacts
        facts_note = srcfacts.regenerate(REPO, os.path.join(COQ, 'Gen', 'SrcFacts.v'))
        mk = os.path.join(COQ, 'Makefile.coq')
        if (not os.path.exists(mk)) or os.path.getmtime(mk) < os.path.getmtime(os.path.join(COQ, '_CoqProject')):
            sh(['coq_makefile', '-f', '_CoqProject', '-o', 'Makefile.coq'], cwd=COQ)
        rc, out, err = sh(['timeout', '1500', 'make', '-f', 'Makefile.coq', '-j16', '-k'], cwd=COQ, timeout=1600)
        log.append('coq make rc=%d' % rc)
        return rc == 0, (out + err)[-4000:], facts_note


def property_assumptions(prop):
    """Compile Properties/<prop>.v alone (its dependencies are built) and collect, per theorem,
    what Print Assumptions says."""
    f = os.path.join(COQ, 'Properties', prop + '.v')
    if not os.path.exists(f):
        return None
    src = strip_coq_comments(open(f).read())
    theorems = re.findall(r'^\s*Theorem\s+(\w+)', src, re.M)
    tmp = tempfile.mkdtemp(prefix='verif-prop-')
    try:
        shutil.copy(f, os.path.join(tmp, prop + '_chk.v'))
        rc, out, err = sh(['timeout', '600', 'coqc'] + COQ_Q + [prop + '_chk.v'], cwd=tmp, timeout=700)
    finally:
        shutil.rmtree(tmp, ignore_errors=True)
    closed = len(re.findall(r'Closed under the global context', out))
    axioms = re.findall(r'^Axioms:\s*\n((?:.+\n)+)', out, re.M)
    return {'file': os.path.relpath(f, VERIF), 'theorems': theorems, 'rc': rc, 'closed': closed,
            'axioms': axioms, 'err': err[-2000:]}


def overlay_file():
    """overlay.json mapping virtual files inside the /repo module to files under harness/go."""
    os.makedirs(BUILD, exist_ok=True)
    hg = os.path.join(VERIF, 'harness', 'go')
    rep = {}
    for name in sorted(os.listdir(hg)):
        d = os.path.join(hg, name)
        if not os.path.isdir(d):
            continue
        target = open(os.path.join(d, 'TARGET')).read().strip() if os.path.exists(os.path.join(d, 'TARGET')) else 'pkg/netpol/' + name
        for f in sorted(os.listdir(d)):
            if f.endswith('.go'):
                rep[os.path.join(REPO, target, f)] = os.path.join(d, f)
    p = os.path.join(BUILD, 'overlay.json')
    with open(p, 'w') as fh:
        json.dump({'Replace': rep}, fh, indent=1)
    return p


def build_go(names, log):
    """Rebuild harness binaries and the real CLI from /repo's CURRENT working tree."""
    res = {}
    with Lock('go'):
        ov = overlay_file()
        for n in names:
            out = os.path.join(BUILD, n)
            if n == 'k8snetpolicy':
                cmd = ['go', 'build', '-o', out, './cmd/netpolicy']
            else:
                tgt_file = os.path.join(VERIF, 'harness', 'go', n, 'TARGET')
                target = open(tgt_file).read().strip() if os.path.exists(tgt_file) else 'pkg/netpol/' + n
                cmd = ['go', 'build', '-tags', 'verif', '-overlay', ov, '-o', out, './' + target]
            rc, o, e = sh(cmd, cwd=REPO, env=GOENV, timeout=1200)
            log.append('go build %s rc=%d' % (n, rc))
            res[n] = (rc == 0, (o + e)[-3000:])
    return res


# ---------- Gallina emitters ----------
def cstr(s):
    return '"' + s.replace('"', '""') + '"%string'


def cbool(b):
    return 'true' if b else 'false'


def cz(n):
    return '(%d)%%Z' % n


def cnat(n):
    if n > 20000:
        raise ValueError('nat literal too large for vm_compute: %d' % n)
    return '%d%%nat' % n


def clist(items):
    return '[' + '; '.join(items) + ']'


def copt(x):
    return 'None' if x is None else '(Some %s)' % x


def run_coq_text(text, name='cases', timeout=1500):
    """Compile a generated .v file (which Prints its result) and return coqc's stdout."""
    tmp = tempfile.mkdtemp(prefix='verif-cases-')
    try:
        with open(os.path.join(tmp, name + '.v'), 'w') as f:
            f.write(text)
        # long string literals (whole dot outputs) make coqc's parser recurse deeply: give it a large stack
        def _big_stack():
            import resource
            soft, hard = resource.getrlimit(resource.RLIMIT_STACK)
            want = 1 << 30
            resource.setrlimit(resource.RLIMIT_STACK, (want if hard == resource.RLIM_INFINITY or hard >= want else hard, hard))
        p = subprocess.run(['timeout', str(timeout), 'coqc'] + COQ_Q + [name + '.v'], cwd=tmp, stdout=subprocess.PIPE, stderr=subprocess.PIPE,
                           text=True, timeout=timeout + 60, preexec_fn=_big_stack)
        return p.returncode, p.stdout, p.stderr
    finally:
        shutil.rmtree(tmp, ignore_errors=True)


def parse_pairs(out, ident):
    """Parse `ident = [(a, b); ...]` printed by Coq into a list of int tuples."""
    m = re.search(r'%s\s*=\s*(\[.*?\])\s*:\s*list' % re.escape(ident), out, re.S)
    if not m:
        return None
    body = m.group(1)
    tuples = re.findall(r'\(([^()]*)\)', body)
    res = []
    for t in tuples:
        res.append(tuple(int(x.strip().replace('%nat', '').replace('%Z', '')) for x in t.split(',')))
    return res


# ---------- known findings ----------
def load_findings(prop):
    p = os.path.join(VERIF, 'known_findings.json')
    if not os.path.exists(p):
        return {}
    data = json.load(open(p))
    return {e['id']: e for e in data.get('findings', []) if e['property'] == prop}


class Run:
    """One check run: collects violations / known findings / evidence and produces the verdict."""

    def __init__(self, prop, tier, design_ref=''):
        self.prop, self.tier = prop, tier
        self.seed = int(os.environ.get('VERIF_SEED', '20260927'))
        self.rng = random.Random('%s-%s-%d' % (prop, tier, self.seed))
        self.t0 = time.time()
        self.log = []
        self.violations = []      # (replay_path, note, no_input)
        self.known_hits = {}      # finding id -> count / example
        self.findings = load_findings(prop)
        self.cov = {'evaluations': 0, 'distinct_nontrivial': 0, 'rule': '', 'samples': [],
                    'traces_validated_against_impl': 0, 'obligations': 0, 'discharged': 0,
                    'checker_cmd': 'make -C coq -f Makefile.coq (coqc 8.16.1 full .vo build) + coqc Properties/%s.v (Print Assumptions)' % prop,
                    'trusted_base': list(TRUSTED_BASE), 'input_distribution': {}}
        self.assumptions = []
        self.proof_ok = True
        self.proof_notes = []
        self._distinct = set()
        self.replay_dir = os.path.join(OUT, 'replays', prop)

    # ---- proof stage ----
    def stage_proofs(self):
        ok, tail, facts_note = build_coq(self.log)
        self.cov['srcfacts'] = facts_note
        if not ok:
            self.proof_ok = False
            self.proof_notes.append('coq build failed: ' + tail[-1500:])
        bad = gate_scan()
        if bad:
            self.proof_ok = False
            self.proof_notes.append('gate: ' + '; '.join(bad[:10]))
        pa = property_assumptions(self.prop)
        if pa is None:
            self.proof_ok = False
            self.proof_notes.append('no Properties/%s.v' % self.prop)
            return
        self.cov['obligations'] = len(pa['theorems'])
        self.cov['discharged'] = pa['closed'] if pa['rc'] == 0 else 0
        self.cov['theorems'] = pa['theorems']
        if pa['rc'] != 0 or pa['closed'] != len(pa['theorems']) or pa['axioms']:
            self.proof_ok = False
            self.proof_notes.append('Properties/%s.v: rc=%d closed=%d/%d axioms=%s err=%s' % (
                self.prop, pa['rc'], pa['closed'], len(pa['theorems']), pa['axioms'], pa['err'][-800:]))
        self.assumptions.append('Print Assumptions: %d/%d theorems closed under the global context' % (
            pa['closed'], len(pa['theorems'])))

    # ---- bookkeeping ----
    def count(self, n=1):
        self.cov['evaluations'] += n

    def nontrivial(self, key):
        h = hashlib.sha1(json.dumps(key, sort_keys=True).encode()).hexdigest()
        self._distinct.add(h)

    def sample(self, x, limit=3):
        if len(self.cov['samples']) < limit:
            self.cov['samples'].append(x)

    def dist(self, key, n=1):
        d = self.cov['input_distribution']
        d[key] = d.get(key, 0) + n

    def write_replay(self, name, payload):
        os.makedirs(self.replay_dir, exist_ok=True)
        p = os.path.join(self.replay_dir, name + '.json')
        with open(p, 'w') as f:
            json.dump(payload, f, indent=1, sort_keys=True)
        return p

    def violation(self, name, payload, note='', no_input=False):
        payload = dict(payload, property=self.prop, note=note, tier=self.tier, seed=self.seed)
        p = self.write_replay(name, payload)
        self.violations.append((p, note, no_input))

    def report(self, finding_id, name, payload, note):
        """A failing case classified as finding_id (or None): known => KNOWN-FINDING, else VIOLATION."""
        f = self.findings.get(finding_id) if finding_id else None
        if f and f.get('status') == 'known':
            if finding_id not in self.known_hits:
                self.known_hits[finding_id] = {'count': 0, 'example': payload}
            self.known_hits[finding_id]['count'] += 1
        else:
            if len(self.violations) < 5:
                self.violation(name, payload, note)
            else:
                self.violations.append((self.violations[0][0], note, False))

    # ---- verdict ----
    def finish(self):
        self.cov['distinct_nontrivial'] = len(self._distinct)
        for fid, hit in sorted(self.known_hits.items()):
            print('KNOWN-FINDING: property=%s %s [%s] (%d case(s) this run)' % (
                self.prop, self.findings[fid]['description'], fid, hit['count']))
        if not self.proof_ok and not any(not v[2] for v in self.violations):
            # a proof obligation / build no longer checks and no concrete failing input was found
            self.violation('proof-obligation', {'what_no_longer_checks': self.proof_notes},
                           note='proof obligation or build broken', no_input=True)
        seen = set()
        for p, note, no_input in self.violations:
            if p in seen:
                continue
            seen.add(p)
            line = 'VIOLATION property=%s replay=%s' % (self.prop, p)
            if no_input:
                line += ' no-failing-input-found'
            print(line)
        ev = {'property_id': self.prop, 'tier': self.tier, 'seed': self.seed, 'level': 'proof',
              'coverage': self.cov, 'assumptions': self.assumptions + self.proof_notes,
              'wall_s': round(time.time() - self.t0, 2), 'violations': len(seen),
              'known_findings_hit': {k: v['count'] for k, v in self.known_hits.items()},
              'log': self.log}
        os.makedirs(os.path.join(OUT, 'evidence'), exist_ok=True)
        with open(os.path.join(OUT, 'evidence', self.prop + '.json'), 'w') as f:
            json.dump(ev, f, indent=1, sort_keys=True)
        print('%s %s: evaluations=%d distinct_nontrivial=%d obligations=%d discharged=%d violations=%d wall=%.1fs' % (
            self.prop, self.tier, self.cov['evaluations'], self.cov['distinct_nontrivial'],
            self.cov['obligations'], self.cov['discharged'], len(seen), time.time() - self.t0))
        return 1 if seen else 0
