# C12 — analysis is total: any input yields a result or an error, never a crash.
# Fault enumeration: every JSON path of every seed manifest (all kinds the tool reads) x {drop, null, "", 0, [], {}, wrong
# type, ...}, one mutation at a time, through list, list --exposure, diff and eval in-process (recovered panics) and the real
# binary on a sample (exit status / "panic:" on stderr); plus a byte-level stream (truncation, junk bytes, indentation damage).
import copy, ipaddress, json, os, re, subprocess
from .lib import core, gen, listcorr

NS = 'ns1'


def seeds():
    tmpl = lambda labels, ports: {'metadata': {'labels': dict(labels)}, 'spec': {'containers': [{'name': 'c', 'image': 'x', 'ports': ports}]}}
    P = [{'containerPort': 80, 'protocol': 'TCP', 'name': 'http'}, {'containerPort': 53, 'protocol': 'UDP', 'name': 'dns'}]
    docs = [
        {'apiVersion': 'v1', 'kind': 'Namespace', 'metadata': {'name': NS, 'labels': {'env': 'a'}}},
        {'apiVersion': 'apps/v1', 'kind': 'Deployment', 'metadata': {'name': 'dep', 'namespace': NS}, 'spec': {'replicas': 2, 'selector': {'matchLabels': {'app': 'a'}}, 'template': tmpl({'app': 'a'}, P)}},
        {'apiVersion': 'apps/v1', 'kind': 'StatefulSet', 'metadata': {'name': 'sts', 'namespace': NS}, 'spec': {'replicas': 1, 'serviceName': 's', 'selector': {'matchLabels': {'app': 'b'}}, 'template': tmpl({'app': 'b'}, P[:1])}},
        {'apiVersion': 'apps/v1', 'kind': 'DaemonSet', 'metadata': {'name': 'ds', 'namespace': NS}, 'spec': {'selector': {'matchLabels': {'app': 'c'}}, 'template': tmpl({'app': 'c'}, [])}},
        {'apiVersion': 'apps/v1', 'kind': 'ReplicaSet', 'metadata': {'name': 'rs', 'namespace': NS}, 'spec': {'replicas': 3, 'selector': {'matchLabels': {'app': 'd'}}, 'template': tmpl({'app': 'd'}, P)}},
        {'apiVersion': 'v1', 'kind': 'ReplicationController', 'metadata': {'name': 'rc', 'namespace': NS}, 'spec': {'replicas': 1, 'selector': {'app': 'e'}, 'template': tmpl({'app': 'e'}, P[:1])}},
        {'apiVersion': 'batch/v1', 'kind': 'Job', 'metadata': {'name': 'job', 'namespace': NS}, 'spec': {'parallelism': 2, 'template': tmpl({'app': 'f'}, [])}},
        {'apiVersion': 'batch/v1', 'kind': 'CronJob', 'metadata': {'name': 'cj', 'namespace': NS}, 'spec': {'schedule': '* * * * *', 'jobTemplate': {'spec': {'template': tmpl({'app': 'g'}, [])}}}},
        {'apiVersion': 'v1', 'kind': 'Pod', 'metadata': {'name': 'pod1', 'namespace': NS, 'labels': {'app': 'h'},
                                                        'ownerReferences': [{'apiVersion': 'apps/v1', 'kind': 'ReplicaSet', 'name': 'own', 'uid': 'u1', 'controller': True}]},
         'spec': {'containers': [{'name': 'c', 'image': 'x', 'ports': P}]}, 'status': {'hostIP': '192.168.49.2', 'podIPs': [{'ip': '10.244.0.5'}]}},
        {'apiVersion': 'networking.k8s.io/v1', 'kind': 'NetworkPolicy', 'metadata': {'name': 'np1', 'namespace': NS},
         'spec': {'podSelector': {'matchLabels': {'app': 'a'}, 'matchExpressions': [{'key': 'x', 'operator': 'NotIn', 'values': ['y']}]},
                  'policyTypes': ['Ingress', 'Egress'],
                  'ingress': [{'from': [{'podSelector': {'matchLabels': {'app': 'b'}}, 'namespaceSelector': {'matchLabels': {'env': 'a'}}},
                                        {'ipBlock': {'cidr': '10.0.0.0/8', 'except': ['10.1.0.0/16']}}],
                               'ports': [{'protocol': 'TCP', 'port': 80, 'endPort': 90}, {'port': 'http'}, {'protocol': 'UDP'}]}],
                  'egress': [{'to': [{'namespaceSelector': {}}], 'ports': [{'protocol': 'UDP', 'port': 53}]}, {'to': [{'ipBlock': {'cidr': '0.0.0.0/0'}}]}]}},
        {'apiVersion': 'v1', 'kind': 'Service', 'metadata': {'name': 'svc', 'namespace': NS}, 'spec': {'selector': {'app': 'a'}, 'ports': [{'name': 'web', 'port': 8080, 'targetPort': 'http', 'protocol': 'TCP'}]}},
        {'apiVersion': 'networking.k8s.io/v1', 'kind': 'Ingress', 'metadata': {'name': 'ing', 'namespace': NS},
         'spec': {'defaultBackend': {'service': {'name': 'svc', 'port': {'number': 8080}}},
                  'rules': [{'host': 'h', 'http': {'paths': [{'path': '/', 'pathType': 'Prefix', 'backend': {'service': {'name': 'svc', 'port': {'name': 'web'}}}}]}}]}},
        {'apiVersion': 'route.openshift.io/v1', 'kind': 'Route', 'metadata': {'name': 'rt', 'namespace': NS},
         'spec': {'to': {'kind': 'Service', 'name': 'svc'}, 'port': {'targetPort': 'http'}, 'alternateBackends': [{'kind': 'Service', 'name': 'svc'}]}},
    ]
    admin = [
        {'apiVersion': 'policy.networking.k8s.io/v1alpha1', 'kind': 'AdminNetworkPolicy', 'metadata': {'name': 'anp1'},
         'spec': {'priority': 5, 'subject': {'namespaces': {'matchLabels': {'env': 'a'}}},
                  'ingress': [{'name': 'r1', 'action': 'Allow', 'from': [{'pods': {'namespaceSelector': {'matchExpressions': [{'key': 'env', 'operator': 'In', 'values': ['a']}]}, 'podSelector': {'matchLabels': {'app': 'b'}}}}],
                               'ports': [{'portNumber': {'protocol': 'TCP', 'port': 80}}, {'namedPort': 'dns'}, {'portRange': {'protocol': 'UDP', 'start': 1, 'end': 100}}]}],
                  'egress': [{'name': 'r2', 'action': 'Pass', 'to': [{'namespaces': {}}]}]}},
        {'apiVersion': 'policy.networking.k8s.io/v1alpha1', 'kind': 'BaselineAdminNetworkPolicy', 'metadata': {'name': 'default'},
         'spec': {'subject': {'pods': {'namespaceSelector': {}, 'podSelector': {}}},
                  'ingress': [{'name': 'b1', 'action': 'Deny', 'from': [{'namespaces': {}}], 'ports': [{'portNumber': {'protocol': 'TCP', 'port': 443}}]}]}},
    ]
    return docs, admin


def paths(x, pre=()):
    yield pre
    if isinstance(x, dict):
        for k in x:
            yield from paths(x[k], pre + (k,))
    elif isinstance(x, list):
        for i in range(len(x)):
            yield from paths(x[i], pre + (i,))


VALUES = [None, '', 0, [], {}, 'x', 123, True, -1, 'fe80::1', '999.1.1.1', ['x'], [None], {'x': 'y'}, 70000, '1.2.3.4/40']


def mutate(doc, path, op):
    d = copy.deepcopy(doc)
    if not path:
        return None
    cur = d
    for k in path[:-1]:
        cur = cur[k]
    last = path[-1]
    if op == 'drop':
        if isinstance(cur, list):
            cur.pop(last)
        else:
            del cur[last]
    else:
        if cur[last] == op and type(cur[last]) == type(op):
            return None
        cur[last] = op
    return d


def all_mutants():
    docs, admin = seeds()
    res = []
    for group, ds in (('base', docs), ('admin', admin)):
        for di, doc in enumerate(ds):
            for p in paths(doc):
                if not p or p == ('kind',) or p == ('apiVersion',):
                    continue
                for op in ['drop'] + VALUES:
                    m = mutate(doc, p, op)
                    if m is not None:
                        res.append((group, di, p, op, m))
    return res


def classify_known(kind, p, op, panic_text):
    if kind == 'Pod' and p and p[-1] == 'hostIP' and 'status' in p:
        return 'c12-hostip-panic'
    return None


def main(tier):
    run = core.Run('C12', tier)
    run.cov['rule'] = ('fault enumeration: every JSON path of 16 seed manifests (Namespace, Deployment, StatefulSet, DaemonSet, ReplicaSet, ReplicationController, Job, CronJob, Pod with ownerReferences/status, '
                       'NetworkPolicy with every feature, Service, Ingress, Route, AdminNetworkPolicy, BaselineAdminNetworkPolicy) x {drop, null, "", 0, [], {}, wrong types, odd addresses/CIDRs}, one mutation at a time; '
                       'each mutant through list, list --exposure, diff (against the seeds) and eval in-process with recover(); the real binary on a sample; plus truncated / damaged files; '
                       'quick = a seeded sample of the mutants, thorough = all; non-trivial = mutant differs from the seed and reaches the analysis (not rejected at decoding); distinct by (document, path, value)')
    run.stage_proofs()
    b = core.build_go(['verifapi', 'k8snetpolicy'], run.log)
    if not b['verifapi'][0]:
        run.proof_ok = False
        run.proof_notes.append('harness verifapi does not build against this tree: ' + b['verifapi'][1][-600:])
        return run.finish()
    muts = all_mutants()
    run.cov['mutants_total'] = len(muts)
    if tier == 'quick':
        # always include the structurally interesting ones (optional pointer fields), sample the rest
        hot = [m for m in muts if any(k in ('controller', 'ownerReferences', 'template', 'http', 'hostIP', 'podIPs', 'port', 'ports', 'rules', 'paths', 'backend', 'service', 'to',
                                            'defaultBackend', 'jobTemplate', 'replicas', 'selector', 'subject', 'from', 'ipBlock', 'cidr', 'targetPort', 'values', 'matchExpressions', 'namespaceSelector', 'podSelector', 'operator') for k in m[2] if isinstance(k, str))
               and (m[3] in ('drop', None) or ('values' in m[2] and m[3] in ([], '')))]
        rest = [m for m in muts if m not in hot]
        muts = hot + run.rng.sample(rest, min(len(rest), 900))
    docs, admin = seeds()
    h = listcorr.Harness()
    try:
        seed_dir = h.dir_for('seed')
        gen.write_dir(seed_dir, docs + admin)
        shard = 400
        nbin = 30 if tier == 'quick' else 300
        for k in range(0, len(muts), shard):
            if len(run.violations) >= 3:
                break
            chunk = muts[k:k + shard]
            cmds = []
            for j, (group, di, p, op, m) in enumerate(chunk):
                base = list(docs)
                adm = list(admin)
                if group == 'base':
                    base[di] = m
                else:
                    adm[di] = m
                d_all = h.dir_for('m%d' % j)
                gen.write_dir(d_all, base + adm)
                d_noadm = h.dir_for('n%d' % j)
                gen.write_dir(d_noadm, base)
                cmds += [{'id': 'l', 'cmd': 'list', 'dir': d_all, 'want_out': True},
                         {'id': 'x', 'cmd': 'list', 'dir': d_noadm, 'exposure': True, 'want_out': True},
                         {'id': 'd', 'cmd': 'diff', 'dir': d_all, 'dir2': seed_dir, 'want_out': True},
                         {'id': 'e', 'cmd': 'eval', 'dir': d_all, 'mode': 'insert', 'queries': [[NS + '/pod1', NS + '/pod1x', 'tcp', '80'], ['10.1.2.3', NS + '/pod1', 'udp', '53'], [NS + '/pod1', '8.8.8.8', 'tcp', '80']]},
                         {'id': 'o', 'cmd': 'eval', 'dir': d_all, 'mode': 'objects', 'queries': [[NS + '/dep-1', NS + '/sts-1', 'tcp', '80'], [NS + '/pod1', NS + '/dep-2', 'TCP', '85'],
                                                                                               [NS + '/sts-1', NS + '/dep-1', 'tcp', '85'], [NS + '/sts-1', NS + '/dep-2', 'sctp', '9']]}]
            outs = h.run(cmds, timeout=3000)
            for j, (group, di, p, op, m) in enumerate(chunk):
                o5 = outs[5 * j: 5 * j + 5]
                run.count(1)
                kind = m.get('kind') if isinstance(m, dict) else '?'
                run.dist('kind:%s' % kind)
                run.dist('op:%s' % ('drop' if op == 'drop' else type(op).__name__))
                reached = any(o['outcome'] == 'ok' or (o['outcome'] == 'err' and 'malformed' not in (o.get('err') or '').lower()) for o in o5)
                if reached:
                    run.nontrivial([kind, list(p), repr(op)])
                for name, o in zip(('list', 'list --exposure', 'diff', 'eval (InsertObject)', 'eval (objects)'), o5):
                    panics = [o.get('err')] if o['outcome'] == 'panic' else [a for a in (o.get('answers') or []) if a.startswith('panic')]
                    if panics:
                        fid = classify_known(kind, p, op, panics[0])
                        run.report(fid, 'panic-%s-%s' % (kind, '_'.join(str(x) for x in p)[:60]),
                                   {'kind': 'mutant', 'command': name, 'document_kind': kind, 'path': list(p), 'value': 'DROP' if op == 'drop' else op, 'manifest': m,
                                    'panic': panics[0], 'how': 'replace the %s manifest of the seed set (checks/c12.py seeds()) by this one and run `k8snetpolicy %s`' % (kind, name)},
                                   '%s panics on a structurally mutated %s manifest' % (name, kind))
                        break
            # the real binary on a sample of this chunk
            binp = os.path.join(core.BUILD, 'k8snetpolicy')
            if b['k8snetpolicy'][0] and nbin > 0:
                for j in run.rng.sample(range(len(chunk)), min(8, len(chunk))):
                    if nbin <= 0:
                        break
                    nbin -= 1
                    group, di, p, op, m = chunk[j]
                    d_all = os.path.join(h.tmp, 'm%d' % j)
                    for args in (['list', '--dirpath', d_all, '-q'], ['diff', '--dir1', d_all, '--dir2', seed_dir, '-q']):
                        pr = subprocess.run([binp] + args, capture_output=True, text=True, timeout=120, cwd=h.tmp)
                        run.dist('binary:' + args[0])
                        if pr.returncode == 2 or 'panic:' in pr.stderr or 'goroutine ' in pr.stderr:
                            fid = classify_known(m.get('kind') if isinstance(m, dict) else '?', p, op, pr.stderr)
                            run.report(fid, 'binpanic-%d' % j, {'kind': 'mutant-binary', 'args': args, 'path': list(p), 'value': 'DROP' if op == 'drop' else op, 'manifest': m,
                                                                 'stderr': pr.stderr[-1500:], 'exit': pr.returncode}, 'the binary crashed')
        # byte-level damage
        text = '\n'.join('---\n' + json.dumps(d, indent=1) for d in docs + admin)
        nb = 60 if tier == 'quick' else 600
        cmds = []
        for i in range(nb):
            x = run.rng.random()
            if x < 0.4:
                t = text[:run.rng.randrange(len(text))]
            elif x < 0.7:
                pos = run.rng.randrange(len(text))
                t = text[:pos] + run.rng.choice(['\x00', '{', '}', '"', ':', '\t', '- ', '&a ', '*a', '%', '\xff']) + text[pos + 1:]
            else:
                lines = text.split('\n')
                for _ in range(3):
                    q = run.rng.randrange(len(lines))
                    lines[q] = ' ' * run.rng.randint(0, 5) + lines[q].strip()
                t = '\n'.join(lines)
            d = h.dir_for('b%d' % i)
            with open(os.path.join(d, 'all.yaml'), 'w', errors='replace') as f:
                f.write(t)
            cmds += [{'id': 'l', 'cmd': 'list', 'dir': d}, {'id': 'x', 'cmd': 'list', 'dir': d, 'exposure': True}, {'id': 'd', 'cmd': 'diff', 'dir': d, 'dir2': seed_dir}]
        outs = h.run(cmds, timeout=3000)
        for i, o in enumerate(outs):
            run.dist('bytes')
            if o['outcome'] == 'panic':
                ftxt = open(os.path.join(h.tmp, 'b%d' % (i // 3), 'all.yaml'), errors='replace').read()
                # the recorded hostIP finding reached through byte damage: a Pod document whose status.hostIP is no longer an IPv4 address
                hostips = re.findall(r'"hostIP"\s*:\s*"([^"\n]*)"?', ftxt)
                def _ipv4(x):
                    try:
                        return isinstance(ipaddress.ip_address(x), ipaddress.IPv4Address)
                    except ValueError:
                        return False
                fid = 'c12-hostip-panic' if any(not _ipv4(x) for x in hostips) else None
                run.report(fid, 'bytes-%d' % (i // 3), {'kind': 'bytes', 'panic': o.get('err'), 'command': cmds[i],
                                                          'file': open(os.path.join(h.tmp, 'b%d' % (i // 3), 'all.yaml'), errors='replace').read()},
                           'panic on a damaged input file')
                break
        # well-formed inputs in unusual combinations (the worlds of the other checks' generators: named ports declared under another
        # protocol, Namespace objects missing, ANP/BANP next to NetworkPolicies, Services/Ingresses/Routes, exposure motifs): no command may panic
        from . import c03, c06, c10
        nw = 90 if tier == 'quick' else 1500
        cmds, winfo = [], []
        for i in range(nw):
            g = i % 3
            if g == 0:
                W = gen.gen_world(run.rng, anp=True, pods=True)
            elif g == 1:
                W = c06.gen_case(run.rng)
            else:
                W = c10.gen_case(run.rng)[0]
            for nsd in W['namespaces']:
                if run.rng.random() < 0.4:
                    nsd['obj'] = False
            if g == 2 and run.rng.random() < 0.5:
                # a NetworkPolicy in the namespace of the synthetic ingress-controller pod selects that pod as well
                dd = run.rng.choice(['ingress', 'egress'])
                W['netpols'].append({'ns': 'ingress-controller-ns', 'name': 'npic', 'podSelector': {}, 'policyTypes': ['Ingress' if dd == 'ingress' else 'Egress'],
                                     dd: [{'from' if dd == 'ingress' else 'to': [{'namespaceSelector': {}}], 'ports': [{'protocol': 'TCP', 'port': run.rng.choice(gen.PORTS)}]}]})
            ms = [m for m, _ in gen.docs(W)] + [c10.manifest(o) for o in W.get('ingress_objs') or []]
            run.rng.shuffle(ms)
            d = h.dir_for('w%d' % i)
            gen.write_dir(d, ms)
            pods = c03.pod_names(W, True) or c03.pod_names(W, False)
            ends = [('pod', wl, name) for name, wl in pods] + [('ip', a) for a in c03.boundary_ips(W, run.rng)[:3]]
            qs = [(a, b_) for a in ends for b_ in ends if not (a[0] == 'ip' and b_[0] == 'ip')]
            qs = run.rng.sample(qs, min(len(qs), 12))
            qstr = lambda x: x[2] if x[0] == 'pod' else str(ipaddress.ip_address(x[1]))
            ports = c03.boundary_ports(W, run.rng)
            queries = [[qstr(a), qstr(b_), run.rng.choice(['tcp', 'UDP', 'sctp']), str(run.rng.choice(ports))] for a, b_ in qs]
            cmds += [{'id': 'l', 'cmd': 'list', 'dir': d, 'want_out': True}, {'id': 'x', 'cmd': 'list', 'dir': d, 'exposure': True, 'format': run.rng.choice(['txt', 'dot', 'json']), 'want_out': True},
                     {'id': 'd', 'cmd': 'diff', 'dir': d, 'dir2': seed_dir, 'want_out': True},
                     {'id': 'e', 'cmd': 'eval', 'dir': d, 'mode': 'insert', 'queries': queries}, {'id': 'o', 'cmd': 'eval', 'dir': d, 'mode': 'objects', 'queries': queries}]
            winfo.append((W, ms, queries))
        outs = h.run(cmds, timeout=3000)
        for i, (W, ms, queries) in enumerate(winfo):
            run.count(1)
            run.dist('worlds')
            for name, o in zip(('list', 'list --exposure', 'diff', 'eval (InsertObject)', 'eval (objects)'), outs[5 * i: 5 * i + 5]):
                panics = [o.get('err')] if o['outcome'] == 'panic' else [a for a in (o.get('answers') or []) if a.startswith('panic')]
                if panics:
                    hostips = [((m.get('status') or {}).get('hostIP')) for m in ms if isinstance(m, dict) and m.get('kind') == 'Pod']
                    run.report(None, 'wpanic-%d' % i, {'kind': 'world', 'command': name, 'manifests': ms, 'queries': queries, 'panic': panics[0], 'world': W},
                               '%s panics on a well-formed input' % name)
                    break
            if len(run.violations) >= 3:
                break
        run.count(nb)
        run.sample({'mutant': {'kind': muts[0][4].get('kind'), 'path': list(muts[0][2]), 'value': 'DROP' if muts[0][3] == 'drop' else muts[0][3]}})
        run.cov['exhaustive'] = (tier != 'quick')
    finally:
        h.close()
    return run.finish()


def replay(payload):
    run = core.Run('C12', 'quick')
    run.stage_proofs()
    core.build_go(['verifapi'], run.log)
    h = listcorr.Harness()
    try:
        docs, admin = seeds()
        if payload.get('kind') == 'world':
            d = h.dir_for('r')
            gen.write_dir(d, payload['manifests'])
            outs = h.run([{'id': 'l', 'cmd': 'list', 'dir': d}, {'id': 'x', 'cmd': 'list', 'dir': d, 'exposure': True},
                          {'id': 'e', 'cmd': 'eval', 'dir': d, 'mode': 'insert', 'queries': payload.get('queries') or []},
                          {'id': 'o', 'cmd': 'eval', 'dir': d, 'mode': 'objects', 'queries': payload.get('queries') or []}])
            run.count(1)
            for o in outs:
                if o['outcome'] == 'panic' or any(a.startswith('panic') for a in o.get('answers') or []):
                    run.report(None, 'replay', payload, 'panic')
                    break
            return run.finish()
        m = payload['manifest']
        base = [m if (isinstance(m, dict) and d.get('kind') == m.get('kind') and d['metadata'].get('name') == (m.get('metadata') or {}).get('name')) else d for d in docs + admin]
        if m not in base:
            base.append(m)
        d = h.dir_for('r')
        gen.write_dir(d, base)
        outs = h.run([{'id': 'l', 'cmd': 'list', 'dir': d}, {'id': 'x', 'cmd': 'list', 'dir': d, 'exposure': True}])
        run.count(1)
        for o in outs:
            if o['outcome'] == 'panic':
                fid = classify_known(m.get('kind') if isinstance(m, dict) else '?', tuple(payload.get('path') or ()), None, '')
                run.report(fid, 'replay', payload, 'panic')
    finally:
        h.close()
    return run.finish()
