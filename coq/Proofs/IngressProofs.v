(* IngressProofs.v — the {ingress-controller} lines of Model/Ingress.v are exactly the pointwise
   statement of C10: a line to workload k carries (TCP, n) iff some Route/Ingress of k's namespace has a
   backend naming a kept Service that selects k and reaches n, and the policies allow (TCP, n) from the
   ingress-controller pod into k; otherwise there is no line and a blocked-ingress warning.  No axioms. *)
From Coq Require Import List ZArith Bool String Lia ZifyBool.
From NP Require Import IntervalSet IntervalSetProofs ConnSet ConnSetProofs World Eval Spec EvalProofs
     Build Connlist ListProofs WfProofs Ingress.
Import ListNotations.
Open Scope list_scope.
Open Scope Z_scope.

(* ---------- sets that only ever store TCP ---------- *)
Definition tcp_only (c : connset) : Prop :=
  cs_pre c /\ cs_get c UDP = None /\ cs_get c SCTP = None.

Lemma tcp_only_make : tcp_only (cs_make false).
Proof. split; [apply cs_make_false_pre|]. split; reflexivity. Qed.

Lemma tcp_only_wf c : tcp_only c -> cs_wf c.
Proof. intros [H _]. apply H. Qed.
Lemma tcp_only_all c : tcp_only c -> cs_all c = false.
Proof. intros [H _]. apply H. Qed.

Lemma tcp_only_ninv c : tcp_only c -> cs_ninv c.
Proof.
  intros [Hp [Hu _]]. apply cs_pre_iff in Hp. destruct Hp as [Ha Hg].
  apply cs_ninv_iff. split; [exact Hg|]. split.
  - intros H. rewrite Ha in H. discriminate H.
  - destruct (cs_is_all_without_allowall c) eqn:E; [|reflexivity].
    apply cs_iawa_gen in E. destruct E as [_ E]. destruct (E UDP) as (ps0 & E0 & _). rewrite Hu in E0. discriminate E0.
Qed.

Lemma tcp_only_denote_other c q n : tcp_only c -> q <> TCP -> cs_denote c q n = false.
Proof.
  intros [Hp [Hu Hs]] Hq. rewrite cs_denote_eq. destruct Hp as (_ & _ & Ha & _). rewrite Ha.
  destruct q; [congruence| rewrite Hu | rewrite Hs]; cbn [opt_mem orb]; apply andb_false_r.
Qed.

Lemma tcp_only_addconn c ps : tcp_only c -> ps_wf ps -> ps_numeric ps -> tcp_only (cs_addconn c TCP ps).
Proof.
  intros [Hp [Hu Hs]] Hw Hn. split; [apply cs_addconn_pre; assumption|].
  unfold cs_addconn. destruct (ps_isempty ps); [split; assumption|].
  destruct (cs_get c TCP); rewrite !cs_get_set; cbn [proto_eqb]; split; assumption.
Qed.

Lemma tcp_only_union c o : tcp_only c -> tcp_only o -> tcp_only (cs_union c o).
Proof.
  intros Hc Ho. rewrite cs_union_eq. rewrite (tcp_only_all c Hc). cbn [orb].
  destruct (cs_isempty o); [exact Hc|]. rewrite (tcp_only_all o Ho).
  destruct Hc as [Hpc [Huc Hsc]]. destruct Ho as [Hpo [Huo Hso]].
  apply cs_pre_iff in Hpc. destruct Hpc as [Hac Hgc]. apply cs_pre_iff in Hpo. destruct Hpo as [Hao Hgo].
  set (m := cs_map (fun p mine => union_entry mine (cs_get o p)) c).
  assert (Hmu : cs_get m UDP = None).
  { unfold m. rewrite cs_get_map, Huc, Huo. reflexivity. }
  assert (Hms : cs_get m SCTP = None).
  { unfold m. rewrite cs_get_map, Hsc, Hso. reflexivity. }
  assert (Hnot : cs_is_all_without_allowall m = false).
  { destruct (cs_is_all_without_allowall m) eqn:E; [|reflexivity].
    apply cs_iawa_gen in E. destruct E as [_ E]. destruct (E UDP) as (ps0 & E0 & _). rewrite Hmu in E0. discriminate E0. }
  unfold cs_check_all. rewrite Hnot. split; [|split; assumption].
  apply cs_pre_iff. split.
  - unfold m. rewrite cs_all_map. exact Hac.
  - intros p. unfold m. rewrite cs_get_map. apply union_entry_good; [exact (Hgc p)|exact (Hgo p)].
Qed.

Lemma contains_denote c n : cs_wf c -> cs_all c = false -> cs_contains c TCP n = cs_denote c TCP n.
Proof.
  intros Hw Ha. unfold cs_denote. destruct (valid_port n) eqn:Hv; [reflexivity|].
  cbn [andb]. unfold cs_contains. rewrite Ha. destruct (cs_get c TCP) as [ps|] eqn:E; [|reflexivity].
  unfold ps_contains. destruct (imem n (ps_ports ps)) eqn:Em; [|reflexivity].
  rewrite (ps_wf_mem_valid ps n (Hw TCP ps E) Em) in Hv. discriminate Hv.
Qed.

(* ---------- single ports ---------- *)
Lemma single_wf n : valid_port n = true -> ps_wf (ps_add_range (ps_make false) n n).
Proof.
  intros H. apply valid_port_iff in H. apply ps_add_range_wf; [apply ps_make_wf|lia|lia].
Qed.
Lemma single_numeric n : ps_numeric (ps_add_range (ps_make false) n n).
Proof. split; reflexivity. Qed.
Lemma single_mem n m : imem m (ps_ports (ps_add_range (ps_make false) n n)) = (n =? m).
Proof.
  rewrite ps_add_range_ports by apply ps_make_wf. unfold in_ivl. cbn [ps_make ps_ports imem fst snd]. lia.
Qed.

Lemma tcp_add_single c n q m :
  tcp_only c -> valid_port n = true ->
  tcp_only (cs_addconn c TCP (ps_add_range (ps_make false) n n)) /\
  cs_denote (cs_addconn c TCP (ps_add_range (ps_make false) n n)) q m
  = cs_denote c q m || (proto_eqb TCP q && (n =? m)).
Proof.
  intros Hc Hv. split.
  - apply tcp_only_addconn; [exact Hc|apply single_wf; exact Hv|apply single_numeric].
  - rewrite cs_addconn_denote by (first [apply tcp_only_wf; exact Hc | apply single_wf; exact Hv]).
    rewrite single_mem. reflexivity.
Qed.

(* ---------- PodExposedTCPConnections ---------- *)
Definition exposed_step (acc : connset) (c : cport) : connset :=
  match cp_proto c with
  | TCP => cs_addconn acc TCP (ps_add_range (ps_make false) (cp_num c) (cp_num c))
  | _ => acc
  end.

Lemma exposed_fold ports : forall acc,
  tcp_only acc -> forallb (fun c => valid_port (cp_num c)) ports = true ->
  tcp_only (fold_left exposed_step ports acc) /\
  forall q m, cs_denote (fold_left exposed_step ports acc) q m
              = cs_denote acc q m
                || (proto_eqb TCP q && existsb (fun c => proto_eqb (cp_proto c) TCP && (cp_num c =? m)) ports).
Proof.
  induction ports as [|c t IH]; intros acc Hacc Hok; cbn [fold_left existsb].
  - split; [exact Hacc|]. intros q m. rewrite andb_false_r, orb_false_r. reflexivity.
  - cbn [forallb] in Hok. apply andb_true_iff in Hok. destruct Hok as [Hc Ht].
    assert (Hstep : tcp_only (exposed_step acc c) /\
                    forall q m, cs_denote (exposed_step acc c) q m
                                = cs_denote acc q m || (proto_eqb TCP q && (proto_eqb (cp_proto c) TCP && (cp_num c =? m)))).
    { unfold exposed_step. destruct (cp_proto c); cbn [proto_eqb andb].
      - split; [apply (tcp_add_single acc (cp_num c) TCP 0 Hacc Hc)|].
        intros q m. apply (tcp_add_single acc (cp_num c) q m Hacc Hc).
      - split; [exact Hacc|]. intros q m. rewrite andb_false_r, orb_false_r. reflexivity.
      - split; [exact Hacc|]. intros q m. rewrite andb_false_r, orb_false_r. reflexivity. }
    destruct Hstep as [H1 H2]. destruct (IH _ H1 Ht) as [H3 H4]. split; [exact H3|].
    intros q m. rewrite H4, H2. destruct (proto_eqb TCP q); cbn [andb]; [|rewrite !orb_false_r; reflexivity].
    rewrite orb_assoc. reflexivity.
Qed.

Lemma exposed_tcp_eq p : exposed_tcp p = fold_left exposed_step (p_ports p) (cs_make false).
Proof. reflexivity. Qed.

Lemma exposed_tcp_ok p :
  pod_okb p = true ->
  tcp_only (exposed_tcp p) /\ forall m, cs_contains (exposed_tcp p) TCP m = tcp_container_port p m.
Proof.
  intros Hok. rewrite exposed_tcp_eq. destruct (exposed_fold (p_ports p) (cs_make false) tcp_only_make Hok) as [H1 H2].
  split; [exact H1|]. intros m. rewrite contains_denote by (first [apply tcp_only_wf; exact H1 | apply tcp_only_all; exact H1]).
  rewrite H2, cs_make_denote. cbn [proto_eqb andb]. rewrite andb_false_r. reflexivity.
Qed.

(* ---------- getIngressPeerConnection ---------- *)
Definition ing_step (p : pod) (tcp : connset) (acc : connset) (a : ios) : connset :=
  match resolve_access p a with
  | Some n => if cs_contains tcp TCP n
              then cs_addconn acc TCP (ps_add_num (ps_make false) n) else acc
  | None => acc
  end.

Lemma ing_fold p (l : list ios) : forall acc,
  pod_okb p = true -> tcp_only acc ->
  tcp_only (fold_left (ing_step p (exposed_tcp p)) l acc) /\
  forall q m, cs_denote (fold_left (ing_step p (exposed_tcp p)) l acc) q m
              = cs_denote acc q m
                || (proto_eqb TCP q && existsb (fun a => match resolve_access p a with
                                                          | Some n => (n =? m) && tcp_container_port p m
                                                          | None => false
                                                          end) l).
Proof.
  intros acc Hp. revert acc. destruct (exposed_tcp_ok p Hp) as [Ht Hc].
  induction l as [|a t IH]; intros acc Hacc; cbn [fold_left existsb].
  - split; [exact Hacc|]. intros q m. rewrite andb_false_r, orb_false_r. reflexivity.
  - assert (Hstep : tcp_only (ing_step p (exposed_tcp p) acc a) /\
                    forall q m, cs_denote (ing_step p (exposed_tcp p) acc a) q m
                                = cs_denote acc q m
                                  || (proto_eqb TCP q && match resolve_access p a with
                                                          | Some n => (n =? m) && tcp_container_port p m
                                                          | None => false
                                                          end)).
    { unfold ing_step. destruct (resolve_access p a) as [n|].
      - destruct (cs_contains (exposed_tcp p) TCP n) eqn:Ec.
        + assert (Hv : valid_port n = true).
          { rewrite contains_denote in Ec by (first [apply tcp_only_wf; exact Ht | apply tcp_only_all; exact Ht]).
            unfold cs_denote in Ec. apply andb_true_iff in Ec. apply Ec. }
          change (ps_add_num (ps_make false) n) with (ps_add_range (ps_make false) n n).
          split; [apply (tcp_add_single acc n TCP 0 Hacc Hv)|].
          intros q m. rewrite (proj2 (tcp_add_single acc n q m Hacc Hv)).
          destruct (Z.eqb_spec n m) as [->|Hne]; cbn [andb]; [|reflexivity].
          rewrite <- Hc, Ec. reflexivity.
        + split; [exact Hacc|]. intros q m.
          destruct (Z.eqb_spec n m) as [->|Hne]; cbn [andb].
          * rewrite <- Hc, Ec, andb_false_r, orb_false_r. reflexivity.
          * rewrite andb_false_r, orb_false_r. reflexivity.
      - split; [exact Hacc|]. intros q m. rewrite andb_false_r, orb_false_r. reflexivity. }
    destruct Hstep as [H1 H2]. destruct (IH _ H1) as [H3 H4]. split; [exact H3|].
    intros q m. rewrite H4, H2. destruct (proto_eqb TCP q); cbn [andb]; [|rewrite !orb_false_r; reflexivity].
    rewrite orb_assoc. reflexivity.
Qed.

Lemma peer_ing_conn_ok bt p sps req :
  pod_okb p = true ->
  tcp_only (peer_ing_conn bt p sps req) /\
  forall q m, cs_denote (peer_ing_conn bt p sps req) q m = proto_eqb TCP q && reaches bt p sps req m.
Proof.
  intros Hp. destruct (ing_fold p (access_ports bt sps req) (cs_make false) Hp tcp_only_make) as [H1 H2].
  split; [exact H1|]. intros q m.
  change (peer_ing_conn bt p sps req) with (fold_left (ing_step p (exposed_tcp p)) (access_ports bt sps req) (cs_make false)).
  rewrite H2, cs_make_denote, andb_false_r. reflexivity.
Qed.

(* ---------- accumulating optional sets ---------- *)
Definition odenote (o : option connset) (q : proto) (m : Z) : bool :=
  match o with Some c => cs_denote c q m | None => false end.
Definition otcp (o : option connset) : Prop := match o with Some c => tcp_only c | None => True end.
Definition is_some {A} (o : option A) : bool := match o with Some _ => true | None => false end.

Lemma opt_union_ok acc c :
  otcp acc -> otcp c ->
  otcp (opt_union acc c) /\
  is_some (opt_union acc c) = is_some acc || is_some c /\
  forall q m, odenote (opt_union acc c) q m = odenote acc q m || odenote c q m.
Proof.
  intros Ha Hc. destruct c as [x|]; cbn [opt_union is_some odenote otcp] in *.
  - destruct acc as [a|]; cbn [is_some odenote otcp orb] in *.
    + split; [apply tcp_only_union; assumption|]. split; [reflexivity|].
      intros q m. apply cs_union_denote; apply tcp_only_wf; assumption.
    + split; [exact Hc|]. split; [reflexivity|]. reflexivity.
  - split; [exact Ha|]. split; [rewrite orb_false_r; reflexivity|].
    intros q m. rewrite orb_false_r. reflexivity.
Qed.

Lemma opt_fold_ok {A} (f : A -> option connset) (l : list A) : forall acc,
  otcp acc -> (forall x, In x l -> otcp (f x)) ->
  let r := fold_left (fun a x => opt_union a (f x)) l acc in
  otcp r /\
  is_some r = is_some acc || existsb (fun x => is_some (f x)) l /\
  forall q m, odenote r q m = odenote acc q m || existsb (fun x => odenote (f x) q m) l.
Proof.
  induction l as [|x t IH]; intros acc Ha Hf; cbn [fold_left existsb].
  - split; [exact Ha|]. split; [rewrite orb_false_r; reflexivity|].
    intros q m. rewrite orb_false_r. reflexivity.
  - destruct (opt_union_ok acc (f x) Ha (Hf x (or_introl eq_refl))) as (H1 & H2 & H3).
    destruct (IH (opt_union acc (f x)) H1 (fun y Hy => Hf y (or_intror Hy))) as (H4 & H5 & H6).
    split; [exact H4|]. split.
    + rewrite H5, H2, orb_assoc. reflexivity.
    + intros q m. rewrite H6, H3, orb_assoc. reflexivity.
Qed.

(* ---------- the analyzer keeps, for every service, workloads of the list it was given ---------- *)
Definition svcs_from (wls : list (string * pod)) (tbl : list (key2 * (list (string * pod) * list svc_port))) : Prop :=
  forall k peers ports, In (k, (peers, ports)) tbl -> forall e, In e peers -> In e wls.

Lemma upsert_in {A} (k : key2) (v : A) l k' v' :
  In (k', v') (upsert k v l) -> (k' = k /\ v' = v) \/ In (k', v') l.
Proof.
  induction l as [|[k0 v0] t IH]; cbn [upsert]; intros H.
  - destruct H as [H|[]]. inversion H. left. split; reflexivity.
  - destruct (key2_eqb k k0).
    + destruct H as [H|H]; [inversion H; left; split; reflexivity|right; right; exact H].
    + destruct H as [H|H]; [right; left; exact H|].
      destruct (IH H) as [H1|H1]; [left; exact H1|right; right; exact H1].
Qed.

Lemma lookup2_in {A} (k : key2) (l : list (key2 * A)) v : lookup2 k l = Some v -> exists k', In (k', v) l.
Proof.
  induction l as [|[k0 v0] t IH]; cbn [lookup2]; intros H; [discriminate H|].
  destruct (key2_eqb k k0).
  - inversion H; subst v0. exists k0. left. reflexivity.
  - destruct (IH H) as [k' Hk]. exists k'. right. exact Hk.
Qed.

Lemma selected_peers_sub wls ns sel e : In e (selected_peers wls ns sel) -> In e wls.
Proof. unfold selected_peers. intros H. apply filter_In in H. apply H. Qed.

Lemma ia_add_from wls ia o : svcs_from wls (ia_svcs ia) -> svcs_from wls (ia_svcs (ia_add wls ia o)).
Proof.
  intros H. destruct o as [s|d|r]; cbn [ia_add].
  - destruct (sv_sel s) as [sel|]; [|exact H].
    destruct (selected_peers wls (sv_ns s) sel) as [|e0 t0] eqn:E; [exact H|].
    cbn [ia_svcs]. intros k peers ports Hin e He.
    apply upsert_in in Hin. destruct Hin as [[_ Hv]|Hin].
    + inversion Hv; subst peers ports. apply (selected_peers_sub wls (sv_ns s) sel). rewrite E. exact He.
    + exact (H k peers ports Hin e He).
  - destruct (ingress_services d); exact H.
  - destruct (route_services r); exact H.
Qed.

Lemma analyze_from wls os : svcs_from wls (ia_svcs (analyze wls os)).
Proof.
  unfold analyze.
  assert (G : forall ia, svcs_from wls (ia_svcs ia) -> svcs_from wls (ia_svcs (fold_left (ia_add wls) os ia))).
  { induction os as [|o t IH]; intros ia H; cbn [fold_left]; [exact H|]. apply IH. apply ia_add_from. exact H. }
  apply G. intros k peers ports [].
Qed.

(* ---------- per workload ---------- *)
Section PerWorkload.
Variable wls : list (string * pod).
Variable ia : analyzer.
Hypothesis Hwls : forall k p, In (k, p) wls -> pod_okb p = true.
Hypothesis Hia : svcs_from wls (ia_svcs ia).

Lemma ref_conn_ok bt ns k r :
  otcp (ref_conn bt ia ns k r) /\
  forall q m, odenote (ref_conn bt ia ns k r) q m
              = proto_eqb TCP q &&
                match lookup2 (ns, sr_svc r) (ia_svcs ia) with
                | None => false
                | Some (peers, ports) =>
                    match find (fun e => String.eqb (fst e) k) peers with
                    | None => false
                    | Some e => reaches bt (snd e) ports (sr_port r) m
                    end
                end.
Proof.
  unfold ref_conn. destruct (lookup2 (ns, sr_svc r) (ia_svcs ia)) as [[peers ports]|] eqn:El.
  - destruct (find (fun e => String.eqb (fst e) k) peers) as [e|] eqn:Ef.
    + assert (Hp : pod_okb (snd e) = true).
      { apply find_some in Ef. destruct Ef as [Hin _]. destruct (lookup2_in _ _ _ El) as [k' Hk'].
        destruct e as [ke pe]. apply (Hwls ke pe). exact (Hia k' peers ports Hk' (ke, pe) Hin). }
      destruct (peer_ing_conn_ok bt (snd e) ports (sr_port r) Hp) as [H1 H2].
      split; [exact H1|]. exact H2.
    + split; [exact I|]. intros q m. cbn [odenote]. rewrite andb_false_r. reflexivity.
  - split; [exact I|]. intros q m. cbn [odenote]. rewrite andb_false_r. reflexivity.
Qed.

Lemma ref_conn_some bt ns k r :
  is_some (ref_conn bt ia ns k r)
  = match lookup2 (ns, sr_svc r) (ia_svcs ia) with
    | None => false
    | Some (peers, _) => existsb (fun e => String.eqb (fst e) k) peers
    end.
Proof.
  unfold ref_conn. destruct (lookup2 (ns, sr_svc r) (ia_svcs ia)) as [[peers ports]|]; [|reflexivity].
  destruct (find (fun e => String.eqb (fst e) k) peers) as [e|] eqn:Ef; cbn [is_some].
  - apply find_some in Ef. symmetry. apply existsb_exists. exists e. exact Ef.
  - destruct (existsb (fun e => String.eqb (fst e) k) peers) eqn:Ee; [|reflexivity].
    apply existsb_exists in Ee. destruct Ee as (e & Hin & He).
    rewrite (find_none _ _ Ef e Hin) in He. discriminate He.
Qed.

Lemma existsb_ext' {A} (f g : A -> bool) l : (forall x, f x = g x) -> existsb f l = existsb g l.
Proof. intros H. induction l as [|x t IH]; cbn [existsb]; [reflexivity|]. rewrite H, IH. reflexivity. Qed.

Lemma existsb_and_const {A} (b : bool) (f : A -> bool) l : existsb (fun x => b && f x) l = b && existsb f l.
Proof.
  induction l as [|x t IH]; cbn [existsb]; [rewrite andb_false_r; reflexivity|].
  rewrite IH. destruct b; reflexivity.
Qed.

Lemma obj_conn_ok bt ns refs k :
  otcp (obj_conn bt ia ns refs k) /\
  is_some (obj_conn bt ia ns refs k) = existsb (fun r => is_some (ref_conn bt ia ns k r)) refs /\
  forall q m, odenote (obj_conn bt ia ns refs k) q m
              = existsb (fun r => odenote (ref_conn bt ia ns k r) q m) refs.
Proof.
  unfold obj_conn.
  destruct (opt_fold_ok (ref_conn bt ia ns k) refs None I (fun r _ => proj1 (ref_conn_ok bt ns k r))) as (H1 & H2 & H3).
  split; [exact H1|]. split; [exact H2|]. exact H3.
Qed.

Lemma kind_conn_ok bt tbl k :
  otcp (kind_conn bt ia tbl k) /\
  is_some (kind_conn bt ia tbl k) = table_targets ia tbl k /\
  forall q m, odenote (kind_conn bt ia tbl k) q m = proto_eqb TCP q && table_reaches bt ia tbl k m.
Proof.
  unfold kind_conn.
  destruct (opt_fold_ok (fun o => obj_conn bt ia (fst (fst o)) (snd o) k) tbl None I
                        (fun o _ => proj1 (obj_conn_ok bt (fst (fst o)) (snd o) k))) as (H1 & H2 & H3).
  split; [exact H1|]. split.
  - rewrite H2. cbn [is_some orb]. unfold table_targets. apply existsb_ext'. intros o.
    rewrite (proj1 (proj2 (obj_conn_ok bt (fst (fst o)) (snd o) k))).
    apply existsb_ext'. intros r. apply ref_conn_some.
  - intros q m. rewrite H3. cbn [odenote orb]. unfold table_reaches.
    rewrite <- existsb_and_const. apply existsb_ext'. intros o.
    rewrite (proj2 (proj2 (obj_conn_ok bt (fst (fst o)) (snd o) k))).
    rewrite <- existsb_and_const. apply existsb_ext'. intros r.
    rewrite (proj2 (ref_conn_ok bt (fst (fst o)) k r)).
    destruct (lookup2 (fst (fst o), sr_svc r) (ia_svcs ia)) as [[peers ports]|]; reflexivity.
Qed.

(* the merged target of one workload *)
Lemma target_conn_ok strict k :
  let c := opt_union (kind_conn (negb strict) ia (ia_ings ia) k) (kind_conn true ia (ia_routes ia) k) in
  otcp c /\ is_some c = spec_ing_targeted ia k /\
  forall q m, odenote c q m = proto_eqb TCP q && spec_ing_port strict ia k m.
Proof.
  destruct (kind_conn_ok (negb strict) (ia_ings ia) k) as (A1 & A2 & A3).
  destruct (kind_conn_ok true (ia_routes ia) k) as (B1 & B2 & B3).
  destruct (opt_union_ok _ _ A1 B1) as (C1 & C2 & C3).
  cbn zeta. split; [exact C1|]. split.
  - rewrite C2, A2, B2. unfold spec_ing_targeted. apply orb_comm.
  - intros q m. rewrite C3, A3, B3. unfold spec_ing_port. destruct (proto_eqb TCP q); cbn [andb]; [apply orb_comm|reflexivity].
Qed.

Lemma ing_targets_in strict t :
  In t (ing_targets strict wls ia) ->
  In (it_key t, it_pod t) wls /\ spec_ing_targeted ia (it_key t) = true /\ tcp_only (it_conn t) /\
  (forall q m, cs_denote (it_conn t) q m = proto_eqb TCP q && spec_ing_port strict ia (it_key t) m) /\
  it_ings t = kind_names (negb strict) ia (ia_ings ia) (it_key t) /\
  it_routes t = kind_names true ia (ia_routes ia) (it_key t).
Proof.
  unfold ing_targets. intros H. apply in_flat_map in H. destruct H as ([k p] & Hin & Ht).
  cbn [fst snd] in Ht. destruct (target_conn_ok strict k) as (C1 & C2 & C3). cbn zeta in C1, C2, C3.
  destruct (opt_union (kind_conn (negb strict) ia (ia_ings ia) k) (kind_conn true ia (ia_routes ia) k)) as [c|]; [|destruct Ht].
  destruct Ht as [Ht|[]]. subst t. cbn [it_key it_pod it_conn it_ings it_routes].
  split; [exact Hin|]. split; [rewrite <- C2; reflexivity|]. split; [exact C1|]. split; [exact C3|]. split; reflexivity.
Qed.

Lemma ing_targets_complete strict k p :
  In (k, p) wls -> spec_ing_targeted ia k = true ->
  exists t, In t (ing_targets strict wls ia) /\ it_key t = k /\ it_pod t = p.
Proof.
  intros Hin Ht. destruct (target_conn_ok strict k) as (C1 & C2 & C3). cbn zeta in C1, C2, C3.
  rewrite Ht in C2.
  destruct (opt_union (kind_conn (negb strict) ia (ia_ings ia) k) (kind_conn true ia (ia_routes ia) k)) as [c|] eqn:E; [|discriminate C2].
  exists (mkIT k p c (kind_names (negb strict) ia (ia_ings ia) k) (kind_names true ia (ia_routes ia) k)).
  split; [|split; reflexivity].
  unfold ing_targets. apply in_flat_map. exists (k, p). split; [exact Hin|]. cbn [fst snd]. rewrite E. left. reflexivity.
Qed.

(* the names a warning may carry are objects of the table that do target the workload *)
Lemma kind_names_in bt tbl k nm :
  In nm (kind_names bt ia tbl k) ->
  exists o, In o tbl /\ nm = (fst (fst o) ++ "/" ++ snd (fst o))%string /\
            existsb (fun r => match lookup2 (fst (fst o), sr_svc r) (ia_svcs ia) with
                              | None => false
                              | Some (peers, _) => existsb (fun e => String.eqb (fst e) k) peers
                              end) (snd o) = true.
Proof.
  unfold kind_names. intros H. apply in_flat_map in H. destruct H as (o & Hin & Ho).
  destruct (obj_conn_ok bt (fst (fst o)) (snd o) k) as (_ & H2 & _).
  destruct (obj_conn bt ia (fst (fst o)) (snd o) k) as [c|]; [|destruct Ho].
  destruct Ho as [Ho|[]]. exists o. split; [exact Hin|]. split; [symmetry; exact Ho|].
  cbn [is_some] in H2. rewrite (existsb_ext' _ _ (snd o) (fun r => ref_conn_some bt (fst (fst o)) k r)) in H2.
  symmetry. exact H2.
Qed.

Lemma kind_names_nonempty bt tbl k :
  table_targets ia tbl k = true -> kind_names bt ia tbl k <> [].
Proof.
  unfold table_targets, kind_names. intros H. apply existsb_exists in H. destruct H as (o & Hin & Ho).
  intros Hnil.
  assert (Hx : In (fst (fst o) ++ "/" ++ snd (fst o))%string
                  (flat_map (fun o => match obj_conn bt ia (fst (fst o)) (snd o) k with
                                      | Some _ => [(fst (fst o) ++ "/" ++ snd (fst o))%string]
                                      | None => []
                                      end) tbl)).
  { apply in_flat_map. exists o. split; [exact Hin|].
    destruct (obj_conn_ok bt (fst (fst o)) (snd o) k) as (_ & H2 & _).
    rewrite (existsb_ext' _ _ (snd o) (fun r => ref_conn_some bt (fst (fst o)) k r)) in H2.
    rewrite Ho in H2. destruct (obj_conn bt ia (fst (fst o)) (snd o) k); [left; reflexivity|discriminate H2]. }
  rewrite Hnil in Hx. destruct Hx.
Qed.
End PerWorkload.

(* ---------- getIngressAllowedConnections ---------- *)
Definition target_mpeer (t : ing_target) : mpeer :=
  mkMP (RW (it_key t)) (Some (it_pod t)) (0, 0) (wl_name_of (it_pod t)) (p_ns (it_pod t)).
Definition target_warn (t : ing_target) : ing_warn :=
  match it_ings t with
  | [] => mkIW (it_key t) false (it_routes t)
  | l => mkIW (it_key t) true l
  end.
Definition ing_src : rpeer := RW ("{" ++ IngressPodName ++ "}")%string.

(* what the policies say about the ingress-controller pod and a target *)
Definition policy_allows (w : world) (dp : peer) (pr : proto) (n : Z) : bool :=
  valid_port n && (pod_to_itself (ingress_peer w) dp || s_allows w (ingress_peer w) dp pr n).

Theorem ingress_lines_ok w focus : forall ts es ws,
  world_okb w = true ->
  (forall t, In t ts -> pod_okb (it_pod t) = true /\ tcp_only (it_conn t)) ->
  ingress_lines w focus ts = Ok (es, ws) ->
  (* every line is the line of a target in focus, with exactly the allowed part of its connections, non-empty *)
  (forall e, In e es ->
     exists t dp, In t ts /\ include_pair focus ingress_mpeer (target_mpeer t) = true /\
                  re_src e = ing_src /\ re_dst e = RW (it_key t) /\ pod_peer w (it_pod t) = Ok dp /\
                  cs_ninv (re_conn e) /\
                  (exists pr n, cs_denote (re_conn e) pr n = true) /\
                  forall pr n, cs_denote (re_conn e) pr n = cs_denote (it_conn t) pr n && policy_allows w dp pr n) /\
  (* every warning is the warning of a target in focus all of whose connections are blocked *)
  (forall x, In x ws ->
     exists t dp, In t ts /\ include_pair focus ingress_mpeer (target_mpeer t) = true /\
                  x = target_warn t /\ pod_peer w (it_pod t) = Ok dp /\
                  forall pr n, cs_denote (it_conn t) pr n && policy_allows w dp pr n = false) /\
  (* every target in focus has its line or its warning *)
  (forall t, In t ts -> include_pair focus ingress_mpeer (target_mpeer t) = true ->
     (exists e, In e es /\ re_src e = ing_src /\ re_dst e = RW (it_key t)) \/ In (target_warn t) ws).
Proof.
  induction ts as [|t rest IH]; intros es ws Hw Hts H; cbn [ingress_lines] in H.
  - inversion H; subst es ws. split; [intros e []|]. split; [intros x []|]. intros t [].
  - fold (target_mpeer t) in H.
    assert (Hrest : forall t0, In t0 rest -> pod_okb (it_pod t0) = true /\ tcp_only (it_conn t0))
      by (intros t0 Ht0; apply Hts; right; exact Ht0).
    destruct (include_pair focus ingress_mpeer (target_mpeer t)) eqn:Einc.
    + destruct (pod_peer w (it_pod t)) as [dp|er] eqn:Edp; cbn [bind] in H; [|discriminate H].
      destruct (all_conns w (ingress_peer w) dp) as [pc|er] eqn:Epc; cbn [bind] in H; [|discriminate H].
      destruct (ingress_lines w focus rest) as [[es0 ws0]|er] eqn:Er; cbn [bind fst snd] in H; [|discriminate H].
      destruct (IH es0 ws0 Hw Hrest eq_refl) as (I1 & I2 & I3).
      destruct (Hts t (or_introl eq_refl)) as [Hpod Htcp].
      assert (Hdpok : peer_okb dp = true).
      { unfold pod_peer in Edp. destruct (find_ns (p_ns (it_pod t)) (w_nss w)); inversion Edp. exact Hpod. }
      destruct (all_conns_ok w (ingress_peer w) dp pc Hdpok Hw Epc) as [Hpcn Hpcd].
      assert (Hcn : cs_ninv (cs_inter (it_conn t) pc)) by (apply cs_inter_ninv; [apply tcp_only_ninv; exact Htcp|exact Hpcn]).
      assert (Hcd : forall pr n, cs_denote (cs_inter (it_conn t) pc) pr n = cs_denote (it_conn t) pr n && policy_allows w dp pr n).
      { intros pr n. rewrite cs_inter_denote.
        - rewrite Hpcd. reflexivity.
        - apply tcp_only_wf. exact Htcp.
        - apply cs_ninv_wf. exact Hpcn.
        - intros Hall. rewrite (tcp_only_all _ Htcp) in Hall. discriminate Hall. }
      destruct (cs_isempty (cs_inter (it_conn t) pc)) eqn:Eemp.
      * (* blocked: warning *)
        inversion H; subst es ws. clear H.
        fold (target_warn t).
        assert (Hblk : forall pr n, cs_denote (it_conn t) pr n && policy_allows w dp pr n = false).
        { intros pr n. rewrite <- Hcd. apply (proj1 (cs_isempty_iff _ Hcn) Eemp). }
        split; [|split].
        -- intros e He. destruct (I1 e He) as (t0 & dp0 & Hin & R). exists t0, dp0. split; [right; exact Hin|exact R].
        -- intros x [Hx|Hx].
           ++ exists t, dp. split; [left; reflexivity|]. split; [exact Einc|]. split; [symmetry; exact Hx|].
              split; [exact Edp|exact Hblk].
           ++ destruct (I2 x Hx) as (t0 & dp0 & Hin & R). exists t0, dp0. split; [right; exact Hin|exact R].
        -- intros t0 [Ht0|Ht0] Hinc0.
           ++ subst t0. right. left. reflexivity.
           ++ destruct (I3 t0 Ht0 Hinc0) as [Hl|Hr]; [left; exact Hl|right; right; exact Hr].
      * (* a line *)
        inversion H; subst es ws. clear H.
        assert (Hne : exists pr n, cs_denote (cs_inter (it_conn t) pc) pr n = true).
        { pose proof (cs_ninv_good _ Hcn) as Hg.
          assert (Hnotall : ~ (forall p n, cs_denote (cs_inter (it_conn t) pc) p n = false)).
          { intros Hall. apply (proj2 (cs_isempty_iff _ Hcn)) in Hall. rewrite Hall in Eemp. discriminate Eemp. }
          destruct (cs_denote (cs_inter (it_conn t) pc) TCP minPort) eqn:E0; [exists TCP, minPort; exact E0|].
          (* classical-free: search through the finite description *)
          clear E0. unfold cs_isempty in Eemp.
          destruct (cs_all (cs_inter (it_conn t) pc)) eqn:Eall.
          - exists TCP, minPort. rewrite cs_denote_eq, Eall. reflexivity.
          - cbn [negb andb] in Eemp.
            assert (Hsome : exists p ps, cs_get (cs_inter (it_conn t) pc) p = Some ps).
            { destruct (cs_get (cs_inter (it_conn t) pc) TCP) as [ps|] eqn:E1; [exists TCP, ps; exact E1|].
              destruct (cs_get (cs_inter (it_conn t) pc) UDP) as [ps|] eqn:E2; [exists UDP, ps; exact E2|].
              destruct (cs_get (cs_inter (it_conn t) pc) SCTP) as [ps|] eqn:E3; [exists SCTP, ps; exact E3|].
              exfalso. assert (Hz : Nat.eqb (cs_len (cs_inter (it_conn t) pc)) 0 = true).
              { apply cs_len_zero. intros [ | | ]; assumption. }
              rewrite Hz in Eemp. discriminate Eemp. }
            destruct Hsome as (p & ps & Eps).
            destruct (ps_good_member ps (Hg p ps Eps)) as (x & Hx & Hv).
            exists p, x. rewrite cs_denote_eq, Eps, Hv. cbn [opt_mem]. rewrite Hx. apply orb_true_r. }
        split; [|split].
        -- intros e [He|He].
           ++ subst e. exists t, dp. cbn [re_src re_dst re_conn].
              split; [left; reflexivity|]. split; [exact Einc|]. split; [reflexivity|]. split; [reflexivity|].
              split; [exact Edp|]. split; [exact Hcn|]. split; [exact Hne|exact Hcd].
           ++ destruct (I1 e He) as (t0 & dp0 & Hin & R). exists t0, dp0. split; [right; exact Hin|exact R].
        -- intros x Hx. destruct (I2 x Hx) as (t0 & dp0 & Hin & R). exists t0, dp0. split; [right; exact Hin|exact R].
        -- intros t0 [Ht0|Ht0] Hinc0.
           ++ subst t0. left. eexists. split; [left; reflexivity|]. split; reflexivity.
           ++ destruct (I3 t0 Ht0 Hinc0) as [(e & He & R)|Hr]; [left; exists e; split; [right; exact He|exact R]|right; exact Hr].
    + destruct (IH es ws Hw Hrest H) as (I1 & I2 & I3). split; [|split].
      * intros e He. destruct (I1 e He) as (t0 & dp0 & Hin & R). exists t0, dp0. split; [right; exact Hin|exact R].
      * intros x Hx. destruct (I2 x Hx) as (t0 & dp0 & Hin & R). exists t0, dp0. split; [right; exact Hin|exact R].
      * intros t0 [Ht0|Ht0] Hinc0.
        -- subst t0. rewrite Einc in Hinc0. discriminate Hinc0.
        -- exact (I3 t0 Ht0 Hinc0).
Qed.

(* ---------- the whole report ---------- *)
Lemma existsb_false {A} (l : list A) : existsb (fun _ => false) l = false.
Proof. induction l as [|x t IH]; cbn [existsb]; [reflexivity|exact IH]. Qed.

Lemma ia_empty_not_targeted ia k : ia_empty ia = true -> spec_ing_targeted ia k = false.
Proof.
  unfold ia_empty, spec_ing_targeted, table_targets. intros H.
  destruct (ia_svcs ia) as [|s0 st] eqn:Es.
  - assert (G : forall tbl : list (key2 * list svc_ref),
               existsb (fun o => existsb (fun r => match lookup2 (fst (fst o), sr_svc r) (@nil (key2 * (list (string * pod) * list svc_port))) with
                                                   | None => false
                                                   | Some (peers, _) => existsb (fun e => String.eqb (fst e) k) peers
                                                   end) (snd o)) tbl = false).
    { induction tbl as [|o t IH]; cbn [existsb]; [reflexivity|]. rewrite IH, orb_false_r.
      cbn [lookup2]. apply existsb_false. }
    rewrite !G. reflexivity.
  - destruct (ia_routes ia); [|discriminate H]. destruct (ia_ings ia); [|discriminate H]. reflexivity.
Qed.

Lemma wls_pods_ok pods :
  forallb pod_okb pods = true -> forall k p, In (k, p) (workloads_of pods []) -> pod_okb p = true.
Proof.
  intros H k p Hin. apply workloads_of_subset in Hin. destruct Hin as [(k0 & [])|Hin].
  rewrite forallb_forall in H. exact (H p Hin).
Qed.

Definition wl_mpeer (k : string) (p : pod) : mpeer := mkMP (RW k) (Some p) (0, 0) (wl_name_of p) (p_ns p).

(* a name a warning carries is an object of the table with a backend naming a kept service that selects k *)
Definition names_target (ia : analyzer) (tbl : list (key2 * list svc_ref)) (k : string) (nm : string) : Prop :=
  exists o, In o tbl /\ nm = (fst (fst o) ++ "/" ++ snd (fst o))%string /\
            existsb (fun rf => match lookup2 (fst (fst o), sr_svc rf) (ia_svcs ia) with
                               | None => false
                               | Some (peers, _) => existsb (fun e => String.eqb (fst e) k) peers
                               end) (snd o) = true.

Theorem list_world_ing_ok strict w ios focus r :
  world_okb w = true -> forallb pod_okb (w_pods w) = true ->
  list_world_ing strict w ios focus = Ok r ->
  let wls := workloads_of (w_pods w) [] in
  let ia := analyze wls ios in
  exists base lines,
    list_world w focus (negb (ia_empty ia)) = Ok base /\
    lr_entries (ir_list r) = lr_entries base ++ lines /\
    lr_peers (ir_list r) = lr_peers base /\ lr_warn (ir_list r) = lr_warn base /\
    (* lines: sound *)
    (forall e, In e lines ->
       exists k p dp, In (k, p) wls /\ spec_ing_targeted ia k = true /\
         include_pair focus ingress_mpeer (wl_mpeer k p) = true /\
         re_src e = ing_src /\ re_dst e = RW k /\ pod_peer w p = Ok dp /\ cs_ninv (re_conn e) /\
         (exists pr n, cs_denote (re_conn e) pr n = true) /\
         forall pr n, cs_denote (re_conn e) pr n
                      = proto_eqb TCP pr && spec_ing_port strict ia k n && policy_allows w dp pr n) /\
    (* warnings: sound *)
    (forall x, In x (ir_warns r) ->
       exists k p dp, In (k, p) wls /\ spec_ing_targeted ia k = true /\ iw_peer x = k /\ pod_peer w p = Ok dp /\
         (forall pr n, proto_eqb TCP pr && spec_ing_port strict ia k n && policy_allows w dp pr n = false) /\
         iw_objs x <> [] /\
         forall nm, In nm (iw_objs x) -> names_target ia (if iw_is_ing x then ia_ings ia else ia_routes ia) k nm) /\
    (* complete: a targeted workload in focus has a line or a warning *)
    (forall k p, In (k, p) wls -> spec_ing_targeted ia k = true -> lr_warn base = false ->
       include_pair focus ingress_mpeer (wl_mpeer k p) = true ->
       (exists e, In e lines /\ re_src e = ing_src /\ re_dst e = RW k) \/
       (exists x, In x (ir_warns r) /\ iw_peer x = k)).
Proof.
  intros Hw Hpods H. cbn zeta. unfold list_world_ing in H.
  destruct (w_pods w) as [|p0 pt] eqn:Epods.
  - inversion H; subst r. cbn [ir_list ir_warns lr_entries lr_peers lr_warn workloads_of].
    exists (mkLR [] [] false), []. unfold list_world. rewrite Epods.
    split; [reflexivity|]. split; [reflexivity|]. split; [reflexivity|]. split; [reflexivity|].
    split; [intros e []|]. split; [intros x []|]. intros k p [].
  - rewrite <- Epods in *. clear Epods p0 pt.
    destruct (owners_consistent (w_pods w)); cbn [negb] in H; [|discriminate H].
    set (wls := workloads_of (w_pods w) []) in *. set (ia := analyze wls ios) in *.
    destruct (list_world w focus (negb (ia_empty ia))) as [base|er] eqn:Eb; cbn [bind] in H; [|discriminate H].
    assert (Hwls : forall k p, In (k, p) wls -> pod_okb p = true) by exact (wls_pods_ok _ Hpods).
    assert (Hia : svcs_from wls (ia_svcs ia)) by apply analyze_from.
    destruct (lr_warn base || ia_empty ia) eqn:Eskip.
    + inversion H; subst r. cbn [ir_list ir_warns]. exists base, []. split; [reflexivity|].
      split; [rewrite app_nil_r; reflexivity|]. split; [reflexivity|]. split; [reflexivity|].
      split; [intros e []|]. split; [intros x []|].
      intros k p Hin Ht Hnw Hinc. apply orb_true_iff in Eskip. destruct Eskip as [E|E].
      * rewrite E in Hnw. discriminate Hnw.
      * rewrite (ia_empty_not_targeted ia k E) in Ht. discriminate Ht.
    + apply orb_false_iff in Eskip. destruct Eskip as [Enw Ene].
      destruct (ingress_lines w focus (ing_targets strict wls ia)) as [[es ws]|er] eqn:El; cbn [bind] in H; [|discriminate H].
      inversion H; subst r. cbn [ir_list ir_warns lr_entries lr_peers lr_warn fst snd].
      assert (Hts : forall t, In t (ing_targets strict wls ia) -> pod_okb (it_pod t) = true /\ tcp_only (it_conn t)).
      { intros t Ht. destruct (ing_targets_in wls ia Hwls Hia strict t Ht) as (A1 & _ & A3 & _).
        split; [exact (Hwls _ _ A1)|exact A3]. }
      destruct (ingress_lines_ok w focus _ es ws Hw Hts El) as (I1 & I2 & I3).
      exists base, es. split; [reflexivity|]. split; [reflexivity|]. split; [reflexivity|]. split; [symmetry; exact Enw|].
      split; [|split].
      * intros e He. destruct (I1 e He) as (t & dp & Hin & Hinc & Hs & Hd & Hdp & Hn & Hne & Hden).
        destruct (ing_targets_in wls ia Hwls Hia strict t Hin) as (A1 & A2 & A3 & A4 & _).
        exists (it_key t), (it_pod t), dp. split; [exact A1|]. split; [exact A2|]. split; [exact Hinc|].
        split; [exact Hs|]. split; [exact Hd|]. split; [exact Hdp|]. split; [exact Hn|]. split; [exact Hne|].
        intros pr n. rewrite Hden, A4. reflexivity.
      * intros x Hx. destruct (I2 x Hx) as (t & dp & Hin & Hinc & Hxe & Hdp & Hblk).
        destruct (ing_targets_in wls ia Hwls Hia strict t Hin) as (A1 & A2 & A3 & A4 & A5 & A6).
        exists (it_key t), (it_pod t), dp. split; [exact A1|]. split; [exact A2|].
        assert (Hpeer : iw_peer x = it_key t).
        { subst x. unfold target_warn. destruct (it_ings t); reflexivity. }
        split; [exact Hpeer|]. split; [exact Hdp|]. split.
        { intros pr n. rewrite <- A4. apply Hblk. }
        unfold spec_ing_targeted in A2. subst x. unfold target_warn.
        destruct (it_ings t) as [|i0 il] eqn:Ei; cbn [iw_objs iw_is_ing].
        -- (* only routes *)
           assert (Hrt : table_targets ia (ia_routes ia) (it_key t) = true).
           { destruct (table_targets ia (ia_routes ia) (it_key t)) eqn:E1; [reflexivity|].
             cbn [orb] in A2. exfalso.
             apply (kind_names_nonempty wls ia Hwls Hia (negb strict) (ia_ings ia) (it_key t) A2).
             rewrite <- A5. reflexivity. }
           split.
           ++ rewrite A6. apply (kind_names_nonempty wls ia Hwls Hia). exact Hrt.
           ++ intros nm Hnm. rewrite A6 in Hnm. apply (kind_names_in wls ia Hwls Hia) in Hnm. exact Hnm.
        -- split; [discriminate|].
           intros nm Hnm. rewrite A5 in Hnm. apply (kind_names_in wls ia Hwls Hia) in Hnm. exact Hnm.
      * intros k p Hin Ht _ Hinc.
        destruct (ing_targets_complete wls ia Hwls Hia strict k p Hin Ht) as (t & Htin & Hk & Hp).
        assert (Hinc' : include_pair focus ingress_mpeer (target_mpeer t) = true).
        { unfold target_mpeer. rewrite Hk, Hp. exact Hinc. }
        destruct (I3 t Htin Hinc') as [(e & He & Hs & Hd)|Hwarn].
        -- left. exists e. split; [exact He|]. split; [exact Hs|]. rewrite Hd, Hk. reflexivity.
        -- right. exists (target_warn t). split; [exact Hwarn|].
           unfold target_warn. destruct (it_ings t); cbn [iw_peer]; exact Hk.
Qed.

(* the two designation rules agree unless an Ingress backend's port number meets a targetPort *)
Lemma designates_agree sp req :
  ios_eqb (sp_target sp) req = false -> designates true sp req = designates false sp req.
Proof. intros H. unfold designates. rewrite H. cbn [andb]. rewrite !orb_false_r. reflexivity. Qed.

(* ---------- reading the pointwise statement ---------- *)
Lemma access_ports_all bt sps req : ios_unset req = true -> access_ports bt sps req = map access_port sps.
Proof.
  intros H. induction sps as [|sp t IH]; cbn [access_ports map]; [reflexivity|]. rewrite H, IH. reflexivity.
Qed.

Lemma access_ports_designated bt sps req :
  ios_unset req = false ->
  access_ports bt sps req = match find (fun sp => designates bt sp req) sps with
                            | Some sp => [access_port sp]
                            | None => []
                            end.
Proof.
  intros H. induction sps as [|sp t IH]; cbn [access_ports find]; [reflexivity|]. rewrite H.
  destruct (designates bt sp req); [reflexivity|exact IH].
Qed.

Lemma reaches_iff bt p sps req n :
  reaches bt p sps req n = true <->
  exists a, In a (access_ports bt sps req) /\ resolve_access p a = Some n /\ tcp_container_port p n = true.
Proof.
  unfold reaches. rewrite existsb_exists. split.
  - intros (a & Hin & Ha). exists a. split; [exact Hin|].
    destruct (resolve_access p a) as [m|]; [|discriminate Ha].
    apply andb_true_iff in Ha. destruct Ha as [Hm Ht]. apply Z.eqb_eq in Hm. subst m. split; [reflexivity|exact Ht].
  - intros (a & Hin & Hr & Ht). exists a. split; [exact Hin|]. rewrite Hr, Ht, Z.eqb_refl. reflexivity.
Qed.

Lemma table_reaches_iff bt ia tbl k n :
  table_reaches bt ia tbl k n = true <->
  exists o r peers ports e,
    In o tbl /\ In r (snd o) /\ lookup2 (fst (fst o), sr_svc r) (ia_svcs ia) = Some (peers, ports) /\
    find (fun e => String.eqb (fst e) k) peers = Some e /\ reaches bt (snd e) ports (sr_port r) n = true.
Proof.
  unfold table_reaches. rewrite existsb_exists. split.
  - intros (o & Hin & Ho). apply existsb_exists in Ho. destruct Ho as (r & Hr & H).
    destruct (lookup2 (fst (fst o), sr_svc r) (ia_svcs ia)) as [[peers ports]|] eqn:El; [|discriminate H].
    destruct (find (fun e => String.eqb (fst e) k) peers) as [e|] eqn:Ef; [|discriminate H].
    exists o, r, peers, ports, e. repeat (split; [assumption|]). exact H.
  - intros (o & r & peers & ports & e & Hin & Hr & El & Ef & H). exists o. split; [exact Hin|].
    apply existsb_exists. exists r. split; [exact Hr|]. cbv beta. unfold key2 in *. rewrite El, Ef. exact H.
Qed.

(* ---------- the implementation's rule and the stated rule ---------- *)
Lemma access_ports_agree sps req :
  (forall sp, In sp sps -> ios_eqb (sp_target sp) req = false) ->
  access_ports true sps req = access_ports false sps req.
Proof.
  induction sps as [|sp t IH]; intros H; cbn [access_ports]; [reflexivity|].
  rewrite (designates_agree sp req (H sp (or_introl eq_refl))).
  rewrite (IH (fun x Hx => H x (or_intror Hx))). reflexivity.
Qed.

Definition no_target_coincidence (ia : analyzer) : Prop :=
  forall o r key peers ports sp,
    In o (ia_ings ia) -> In r (snd o) -> In (key, (peers, ports)) (ia_svcs ia) -> In sp ports ->
    ios_eqb (sp_target sp) (sr_port r) = false.

Lemma fold_left_ext_in {A B} (f g : A -> B -> A) (l : list B) :
  (forall a x, In x l -> f a x = g a x) -> forall a, fold_left f l a = fold_left g l a.
Proof.
  induction l as [|x t IH]; intros H a; cbn [fold_left]; [reflexivity|].
  rewrite (H a x (or_introl eq_refl)). apply IH. intros a0 y Hy. apply H. right. exact Hy.
Qed.

Lemma flat_map_ext_in {A B} (f g : A -> list B) (l : list A) :
  (forall x, In x l -> f x = g x) -> flat_map f l = flat_map g l.
Proof.
  induction l as [|x t IH]; intros H; cbn [flat_map]; [reflexivity|].
  rewrite (H x (or_introl eq_refl)), (IH (fun y Hy => H y (or_intror Hy))). reflexivity.
Qed.

Lemma obj_conn_agree ia o k :
  no_target_coincidence ia -> In o (ia_ings ia) ->
  obj_conn true ia (fst (fst o)) (snd o) k = obj_conn false ia (fst (fst o)) (snd o) k.
Proof.
  intros Hn Ho. unfold obj_conn. apply fold_left_ext_in. intros a r Hr. f_equal.
  unfold ref_conn. destruct (lookup2 (fst (fst o), sr_svc r) (ia_svcs ia)) as [[peers ports]|] eqn:El; [|reflexivity].
  destruct (find (fun e => String.eqb (fst e) k) peers) as [e|]; [|reflexivity].
  destruct (lookup2_in _ _ _ El) as [key Hkey].
  unfold peer_ing_conn. rewrite (access_ports_agree ports (sr_port r) (fun sp Hsp => Hn o r key peers ports sp Ho Hr Hkey Hsp)).
  reflexivity.
Qed.

Theorem ing_targets_agree wls ia :
  no_target_coincidence ia -> ing_targets false wls ia = ing_targets true wls ia.
Proof.
  intros Hn. unfold ing_targets. apply flat_map_ext_in. intros e _. cbn [negb].
  assert (Hk : kind_conn true ia (ia_ings ia) (fst e) = kind_conn false ia (ia_ings ia) (fst e)).
  { unfold kind_conn. apply fold_left_ext_in. intros a o Ho. pose proof (obj_conn_agree ia o (fst e) Hn Ho) as X. unfold key2 in *. rewrite X. reflexivity. }
  assert (Hnm : kind_names true ia (ia_ings ia) (fst e) = kind_names false ia (ia_ings ia) (fst e)).
  { unfold kind_names. apply flat_map_ext_in. intros o Ho. pose proof (obj_conn_agree ia o (fst e) Hn Ho) as X. unfold key2 in *. rewrite X. reflexivity. }
  rewrite Hk, Hnm. reflexivity.
Qed.

Theorem list_world_ing_agree w ios focus :
  no_target_coincidence (analyze (workloads_of (w_pods w) []) ios) ->
  list_world_ing false w ios focus = list_world_ing true w ios focus.
Proof.
  intros Hn. unfold list_world_ing. destruct (w_pods w) as [|p0 pt] eqn:Ep; [reflexivity|]. rewrite <- Ep in *.
  rewrite (ing_targets_agree _ _ Hn). reflexivity.
Qed.
