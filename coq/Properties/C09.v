(* C09 — every output format faithfully encodes the computed result.  (partial: see below)
   Statements only; proofs in Proofs/FormatProofs.v.  Model/Format.v gives list txt/md/csv/json and
   diff txt/md/csv BYTE FOR BYTE as functions of the analysis result; the check compares the real
   formatter's bytes with these functions applied to the real API result on every run, and parses every
   format (incl. dot) back.  Proved here: each format lists every entry exactly once (rows are a
   permutation of the entries' rows) and the row formats print the same rows.  Not proved: injectivity of
   the string rendering of connections / IP ranges (the check's parse-back covers it on generated results);
   encoding/json and encoding/csv are modelled on the alphabet the analysis produces. *)
From Coq Require Import List ZArith Bool String Permutation.
From NP Require Import IntervalSet ConnSet ConnSetProofs World Build Connlist Diff Format SortGeneric FormatProofs.
Import ListNotations.

Theorem C09_rows_are_exactly_the_entries es : Permutation (rowsort (map row_of es)) (map row_of es).
Proof. exact (list_rows_are_the_entries es). Qed.
Print Assumptions C09_rows_are_exactly_the_entries.

Theorem C09_txt_lines_are_exactly_the_entries es :
  Permutation (strsort (map (fun e => txt_line (row_of e)) es)) (map (fun e => txt_line (row_of e)) es).
Proof. exact (list_txt_lines_are_the_entries es). Qed.
Print Assumptions C09_txt_lines_are_exactly_the_entries.

Theorem C09_row_formats_share_rows es :
  list_md es = (join nl (md_header :: map md_line (rowsort (map row_of es))) ++ nl)%string /\
  list_csv es = (csv_row ["src"; "dst"; "conn"] ++
                 fold_right (fun r acc => csv_row [r_src r; r_dst r; r_conn r] ++ acc) EmptyString (rowsort (map row_of es)))%string.
Proof. exact (row_formats_share_rows es). Qed.
Print Assumptions C09_row_formats_share_rows.

(* the printed connection is a function of the set of (protocol, port) points: equal sets print identically *)
Theorem C09_conn_string_is_function_of_the_set c o :
  cs_ninv c -> cs_ninv o -> (forall p n, cs_denote c p n = cs_denote o p n) -> cs_string c = cs_string o.
Proof. exact (cs_string_eq_of_denote c o). Qed.
Print Assumptions C09_conn_string_is_function_of_the_set.
