(* C18 — CLI, directory API and resource-info API give the same answer.  (partial)
   Model/Cli.v: the decision logic of pkg/cli (flags -> options, validation, stdout, -f file, exit
   status) with the library call as a parameter.  Proved, for every flag combination and every library
   behaviour: with valid flags stdout is exactly the string the library returns for the mapped options, the
   -f file holds the same bytes, and the exit status is non-zero exactly when the library returned an error.
   Partial: process behaviour (cobra parsing, the real stdout, the real file) is sampled by the check. *)
From Coq Require Import List Bool String.
From NP Require Import Cli.
Import ListNotations.

Theorem C18_list_cli_eq_lib lib f :
  valid_list_format (lf_format f) = true -> (lf_quiet f && lf_verbose f) = false ->
  match lib (list_options f) with
  | LibOut s => pr_stdout (run_list lib f) = s /\ pr_exit_zero (run_list lib f) = true /\
                (forall p, lf_file f = Some p -> pr_file (run_list lib f) = Some (p, s))
  | LibErr => pr_exit_zero (run_list lib f) = false /\ pr_stdout (run_list lib f) = EmptyString
  end.
Proof.
  intros Hv Hq. unfold run_list. rewrite Hv, Hq. cbn [negb].
  destruct (lib (list_options f)); cbn; [repeat split; intros p ->; reflexivity | split; reflexivity].
Qed.
Print Assumptions C18_list_cli_eq_lib.

Theorem C18_list_exit_status lib f :
  pr_exit_zero (run_list lib f) = true <->
  (valid_list_format (lf_format f) = true /\ (lf_quiet f && lf_verbose f) = false /\ exists s, lib (list_options f) = LibOut s).
Proof.
  unfold run_list. destruct (valid_list_format (lf_format f)); cbn [negb].
  - destruct (lf_quiet f && lf_verbose f).
    + split; [discriminate | intros (_ & H & _); discriminate].
    + destruct (lib (list_options f)) eqn:E; cbn.
      * split; [intros _; repeat split; eauto | reflexivity].
      * split; [discriminate | intros (_ & _ & s & H); discriminate].
  - split; [discriminate | intros (H & _); discriminate].
Qed.
Print Assumptions C18_list_exit_status.

Theorem C18_diff_cli_eq_lib lib f :
  String.eqb (df_dir1 f) "" = false -> String.eqb (df_dir2 f) "" = false -> valid_diff_format (df_format f) = true ->
  match lib (df_dir1 f) (df_dir2 f) (df_format f) (df_fail f) with
  | LibOut s => pr_stdout (run_diff lib f) = s /\ pr_exit_zero (run_diff lib f) = true /\
                (forall p, df_file f = Some p -> pr_file (run_diff lib f) = Some (p, s))
  | LibErr => pr_exit_zero (run_diff lib f) = false
  end.
Proof.
  intros H1 H2 Hv. unfold run_diff. rewrite H1, H2, Hv. cbn [orb negb].
  destruct (lib _ _ _ _); cbn; [repeat split; intros p ->; reflexivity | reflexivity].
Qed.
Print Assumptions C18_diff_cli_eq_lib.

(* the flag -> option map loses nothing *)
Theorem C18_options_map f :
  lo_format (list_options f) = lf_format f /\ lo_exposure (list_options f) = lf_exposure f /\
  lo_focus (list_options f) = lf_focus f /\ lo_stop (list_options f) = lf_fail f.
Proof. repeat split. Qed.
Print Assumptions C18_options_map.
