(* PartitionTiles.v — the model's own IP peers tile 0.0.0.0 - 255.255.255.255: the C05 partition checker accepts the peers of
   every model report (whatever the rules' CIDRs, as long as they are IPv4 ranges).  No axioms. *)
From Coq Require Import List ZArith Bool String Lia ZifyBool.
From NP Require Import IntervalSet ConnSet World Eval Build Connlist PartitionProofs.
Import ListNotations.
Open Scope list_scope.
Open Scope Z_scope.

Fixpoint last_of (d : Z) (l : list Z) : Z := match l with [] => d | x :: t => last_of x t end.

Lemma tiles_of_cuts t : forall a, ssorted (a :: t) -> last_of a t = maxIP + 1 -> tiles_from a (blocks_of_cuts (a :: t)) = true.
Proof.
  induction t as [|b t' IH]; intros a Hs Hl.
  - change (tiles_from a [] = true). cbn [tiles_from]. apply Z.eqb_eq. exact Hl.
  - rewrite blocks_of_cuts_cons2. cbn [tiles_from]. destruct Hs as [Ha Ht]. pose proof (Ha b (or_introl eq_refl)) as Hab.
    replace (b - 1 + 1) with b by lia. rewrite (IH b Ht Hl). rewrite Z.eqb_refl. cbn [andb]. rewrite andb_true_r. apply Z.leb_le. lia.
Qed.

Lemma cuts_fold_origin blocks : forall acc y,
  In y (fold_left (fun acc b => zinsert (fst b) (zinsert (snd b + 1) acc)) blocks acc) ->
  In y acc \/ exists b, In b blocks /\ (y = fst b \/ y = snd b + 1).
Proof.
  induction blocks as [|b t IH]; intros acc y H; cbn [fold_left] in H; [left; exact H|].
  destruct (IH _ y H) as [H1|(b' & Hb' & Hy)].
  - apply zinsert_in in H1. destruct H1 as [H1|H1]; [right; exists b; split; [left; reflexivity|left; exact H1]|].
    apply zinsert_in in H1. destruct H1 as [H1|H1]; [right; exists b; split; [left; reflexivity|right; exact H1]|left; exact H1].
  - right. exists b'. split; [right; exact Hb'|exact Hy].
Qed.

Lemma sorted_head_is_min x l m : ssorted (x :: l) -> In m (x :: l) -> (forall y, In y (x :: l) -> m <= y) -> x = m.
Proof.
  intros [Hx _] Hin Hmin. destruct Hin as [Hin|Hin]; [exact Hin|]. specialize (Hx m Hin). specialize (Hmin x (or_introl eq_refl)). lia.
Qed.

Lemma sorted_last_is_max l : forall x M, ssorted (x :: l) -> In M (x :: l) -> (forall y, In y (x :: l) -> y <= M) -> last_of x l = M.
Proof.
  induction l as [|z t IH]; intros x M Hs Hin Hmax; cbn [last_of].
  - destruct Hin as [Hin|[]]. exact Hin.
  - destruct Hs as [Hx Ht]. apply IH; [exact Ht| |intros y Hy; apply Hmax; right; exact Hy].
    destruct Hin as [Hin|Hin]; [|exact Hin]. subst M. specialize (Hmax z (or_intror (or_introl eq_refl))). specialize (Hx z (or_introl eq_refl)). lia.
Qed.

Lemma blocks_fsts_sorted cuts : ssorted cuts -> ssorted (map fst (blocks_of_cuts cuts)).
Proof.
  induction cuts as [|a t IH]; intros Hs; [cbn; exact Logic.I|].
  destruct t as [|b t']; [cbn; exact Logic.I|]. rewrite blocks_of_cuts_cons2. cbn [map fst ssorted]. destruct Hs as [Ha Ht]. split; [|apply IH; exact Ht].
  intros y Hy. apply in_map_iff in Hy. destruct Hy as (P & HP & Hin). subst y. apply Ha. apply (blocks_fst_in _ P Hin).
Qed.

Lemma insertion_sort_of_sorted l : ssorted (map fst l) -> fold_right insert_ivl [] l = l.
Proof.
  induction l as [|v t IH]; intros Hs; cbn [fold_right]; [reflexivity|]. cbn [map ssorted] in Hs. destruct Hs as [Hv Ht].
  rewrite (IH Ht). destruct t as [|u t']; cbn [insert_ivl]; [reflexivity|].
  specialize (Hv (fst u) (or_introl eq_refl)). destruct (fst v <? fst u) eqn:E; [reflexivity|lia].
Qed.

Lemma ip_peers_of_nonip (rest : list rpeer) : (forall p, In p rest -> rpeer_is_ip p = false) -> ip_peers_of rest = [].
Proof.
  unfold ip_peers_of. induction rest as [|p t IH]; intros Hr; cbn [flat_map]; [reflexivity|].
  rewrite IH by (intros q Hq; apply Hr; right; exact Hq).
  specialize (Hr p (or_introl eq_refl)). destruct p; [reflexivity|discriminate Hr].
Qed.

Lemma ip_peers_of_blocks (bl : list ivl) (rest : list rpeer) :
  (forall p, In p rest -> rpeer_is_ip p = false) ->
  ip_peers_of (map (fun b => RIP (fst b) (snd b)) bl ++ rest) = bl.
Proof.
  intros Hr. induction bl as [|[a b] t IH]; cbn [map app].
  - apply ip_peers_of_nonip. exact Hr.
  - unfold ip_peers_of in *. cbn [flat_map fst snd app]. rewrite IH. reflexivity.
Qed.

Definition blocks_in_range (blocks : list ivl) : Prop :=
  forall b, In b blocks -> 0 <= fst b <= maxIP + 1 /\ -1 <= snd b <= maxIP.

Theorem partition_tiles blocks : blocks_in_range blocks -> tiles_from 0 (fold_right insert_ivl [] (ip_partition blocks)) = true.
Proof.
  intros Hr. unfold ip_partition.
  assert (Hs0 : ssorted [0; maxIP + 1]).
  { cbn [ssorted In]. split; [intros z [Hz|[]]; subst z; unfold maxIP; lia|]. split; [intros z []|exact Logic.I]. }
  destruct (cuts_fold_props blocks [0; maxIP + 1] Hs0) as (C1 & C2 & _). cbn zeta in *.
  set (cuts := fold_left (fun acc b => zinsert (fst b) (zinsert (snd b + 1) acc)) blocks [0; maxIP + 1]) in *.
  assert (Hbound : forall y, In y cuts -> 0 <= y <= maxIP + 1).
  { intros y Hy. destruct (cuts_fold_origin blocks _ y Hy) as [H0|(b & Hb & Hyb)].
    - destruct H0 as [H0|[H0|[]]]; subst y; unfold maxIP; lia.
    - destruct (Hr b Hb) as [H1 H2]. destruct Hyb; subst y; lia. }
  assert (H0in : In 0 cuts) by (apply C2; left; reflexivity).
  assert (HMin : In (maxIP + 1) cuts) by (apply C2; right; left; reflexivity).
  destruct cuts as [|x l] eqn:Ec; [destruct H0in|].
  assert (Hx : x = 0) by (apply (sorted_head_is_min x l 0 C1 H0in); intros y Hy; apply Hbound; exact Hy).
  assert (Hl : last_of x l = maxIP + 1) by (apply (sorted_last_is_max l x (maxIP + 1) C1 HMin); intros y Hy; apply Hbound; exact Hy).
  rewrite (insertion_sort_of_sorted _ (blocks_fsts_sorted _ C1)). subst x. apply (tiles_of_cuts l 0 C1 Hl).
Qed.

(* the peers of every model report pass the partition part of the C05 checker *)
Theorem model_peers_partition_ok w blocks :
  blocks_in_range blocks -> ip_partition_okb (map mp_r (mpeers_of w (ip_partition blocks))) = true.
Proof.
  intros Hr. unfold ip_partition_okb, mpeers_of. rewrite map_app, !map_map. cbn [mp_r].
  rewrite (ip_peers_of_blocks (ip_partition blocks)).
  - apply partition_tiles. exact Hr.
  - intros p Hp. apply in_map_iff in Hp. destruct Hp as (e & He & _). subst p. reflexivity.
Qed.
