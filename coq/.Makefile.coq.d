Gen/SrcFacts.vo Gen/SrcFacts.glob Gen/SrcFacts.v.beautified Gen/SrcFacts.required_vo: Gen/SrcFacts.v 
Gen/SrcFacts.vio: Gen/SrcFacts.v 
Gen/SrcFacts.vos Gen/SrcFacts.vok Gen/SrcFacts.required_vos: Gen/SrcFacts.v 
Model/IntervalSet.vo Model/IntervalSet.glob Model/IntervalSet.v.beautified Model/IntervalSet.required_vo: Model/IntervalSet.v 
Model/IntervalSet.vio: Model/IntervalSet.v 
Model/IntervalSet.vos Model/IntervalSet.vok Model/IntervalSet.required_vos: Model/IntervalSet.v 
Proofs/IntervalSetProofs.vo Proofs/IntervalSetProofs.glob Proofs/IntervalSetProofs.v.beautified Proofs/IntervalSetProofs.required_vo: Proofs/IntervalSetProofs.v Model/IntervalSet.vo
Proofs/IntervalSetProofs.vio: Proofs/IntervalSetProofs.v Model/IntervalSet.vio
Proofs/IntervalSetProofs.vos Proofs/IntervalSetProofs.vok Proofs/IntervalSetProofs.required_vos: Proofs/IntervalSetProofs.v Model/IntervalSet.vos
Model/ConnSet.vo Model/ConnSet.glob Model/ConnSet.v.beautified Model/ConnSet.required_vo: Model/ConnSet.v Model/IntervalSet.vo
Model/ConnSet.vio: Model/ConnSet.v Model/IntervalSet.vio
Model/ConnSet.vos Model/ConnSet.vok Model/ConnSet.required_vos: Model/ConnSet.v Model/IntervalSet.vos
Model/AlgCase.vo Model/AlgCase.glob Model/AlgCase.v.beautified Model/AlgCase.required_vo: Model/AlgCase.v Model/IntervalSet.vo Model/ConnSet.vo
Model/AlgCase.vio: Model/AlgCase.v Model/IntervalSet.vio Model/ConnSet.vio
Model/AlgCase.vos Model/AlgCase.vok Model/AlgCase.required_vos: Model/AlgCase.v Model/IntervalSet.vos Model/ConnSet.vos
Proofs/ConnSetProofs.vo Proofs/ConnSetProofs.glob Proofs/ConnSetProofs.v.beautified Proofs/ConnSetProofs.required_vo: Proofs/ConnSetProofs.v Model/IntervalSet.vo Proofs/IntervalSetProofs.vo Model/ConnSet.vo
Proofs/ConnSetProofs.vio: Proofs/ConnSetProofs.v Model/IntervalSet.vio Proofs/IntervalSetProofs.vio Model/ConnSet.vio
Proofs/ConnSetProofs.vos Proofs/ConnSetProofs.vok Proofs/ConnSetProofs.required_vos: Proofs/ConnSetProofs.v Model/IntervalSet.vos Proofs/IntervalSetProofs.vos Model/ConnSet.vos
Proofs/FactsPorts.vo Proofs/FactsPorts.glob Proofs/FactsPorts.v.beautified Proofs/FactsPorts.required_vo: Proofs/FactsPorts.v Gen/SrcFacts.vo Model/IntervalSet.vo Model/ConnSet.vo
Proofs/FactsPorts.vio: Proofs/FactsPorts.v Gen/SrcFacts.vio Model/IntervalSet.vio Model/ConnSet.vio
Proofs/FactsPorts.vos Proofs/FactsPorts.vok Proofs/FactsPorts.required_vos: Proofs/FactsPorts.v Gen/SrcFacts.vos Model/IntervalSet.vos Model/ConnSet.vos
Properties/C11.vo Properties/C11.glob Properties/C11.v.beautified Properties/C11.required_vo: Properties/C11.v Model/IntervalSet.vo Model/ConnSet.vo Proofs/ConnSetProofs.vo Proofs/FactsPorts.vo Gen/SrcFacts.vo
Properties/C11.vio: Properties/C11.v Model/IntervalSet.vio Model/ConnSet.vio Proofs/ConnSetProofs.vio Proofs/FactsPorts.vio Gen/SrcFacts.vio
Properties/C11.vos Properties/C11.vok Properties/C11.required_vos: Properties/C11.v Model/IntervalSet.vos Model/ConnSet.vos Proofs/ConnSetProofs.vos Proofs/FactsPorts.vos Gen/SrcFacts.vos
