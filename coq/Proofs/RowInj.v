(* RowInj.v — the txt and md outputs of `list` determine the report: two reports whose entries are
   printable (canonical connection sets, IPv4 ranges, workload names without blanks that do not look like
   an address range) and that print identically have the same entries. *)
From Coq Require Import List ZArith Bool String Ascii Lia Permutation.
From NP Require Import IntervalSet ConnSet IntervalSetProofs ConnSetProofs World Build Connlist Diff Format
     SortGeneric FormatProofs StrInj ConnInj.
Import ListNotations.
Open Scope string_scope.

Definition nlc : ascii := ascii_of_nat 10.
Definition is_ipc (ch : ascii) : bool := is_digit ch || Ascii.eqb ch ".".
Definition is_rangec (ch : ascii) : bool := is_ipc ch || Ascii.eqb ch "-".
Definition plain (ch : ascii) : bool :=
  negb (Ascii.eqb ch " ") && negb (Ascii.eqb ch nlc) && negb (Ascii.eqb ch ",") && negb (Ascii.eqb ch """").
Definition not_nl (ch : ascii) : bool := negb (Ascii.eqb ch nlc).

Lemma digit_ipc ch : is_digit ch = true -> is_ipc ch = true.
Proof. intros H. unfold is_ipc. rewrite H. reflexivity. Qed.
Lemma ipc_rangec ch : is_ipc ch = true -> is_rangec ch = true.
Proof. intros H. unfold is_rangec. rewrite H. reflexivity. Qed.
Lemma rangec_plain ch : is_rangec ch = true -> plain ch = true.
Proof.
  unfold plain. destruct (Ascii.eqb_spec ch " "); [subst; cbn; discriminate|].
  destruct (Ascii.eqb_spec ch nlc); [subst; cbn; discriminate|].
  destruct (Ascii.eqb_spec ch ","); [subst; cbn; discriminate|].
  destruct (Ascii.eqb_spec ch """"); [subst; cbn; discriminate|reflexivity].
Qed.
Lemma plain_not_nl ch : plain ch = true -> not_nl ch = true.
Proof. unfold plain, not_nl. intros H. rewrite !andb_true_iff in H. tauto. Qed.
Lemma conn_not_nl ch : conn_char ch = true -> not_nl ch = true.
Proof. unfold not_nl. destruct (Ascii.eqb_spec ch nlc); [subst; cbn; discriminate|reflexivity]. Qed.

(* ---- dotted addresses ---- *)
Lemma ip_str_chars a : (0 <= a)%Z -> all_chars is_ipc (ip_str a) = true.
Proof.
  intros H. unfold ip_str. rewrite !all_chars_app. cbn.
  assert (D : forall z, (0 <= z)%Z -> all_chars is_ipc (Z_str z) = true).
  { intros z Hz. exact (all_chars_weaken is_digit is_ipc _ digit_ipc (Z_str_digits z Hz)). }
  rewrite (D (a / 16777216)%Z) by (apply Z.div_pos; lia).
  rewrite !D by (apply Z.mod_pos_bound; lia). reflexivity.
Qed.

Lemma digit_dot : is_digit "." = false. Proof. reflexivity. Qed.

Lemma ip_str_inj a b : (0 <= a)%Z -> (0 <= b)%Z -> ip_str a = ip_str b -> a = b.
Proof.
  intros Ha Hb H. unfold ip_str in H. cbn [append] in H.
  assert (P : forall x y, (0 <= x)%Z -> (0 < y)%Z -> (0 <= x / y)%Z) by (intros; apply Z.div_pos; lia).
  assert (Q : forall x, (0 <= x mod 256)%Z) by (intros; apply Z.mod_pos_bound; lia).
  destruct (split_unique is_digit "." _ _ _ _ digit_dot (Z_str_digits _ (P a 16777216%Z Ha ltac:(lia))) (Z_str_digits _ (P b 16777216%Z Hb ltac:(lia))) H) as [E1 H1].
  destruct (split_unique is_digit "." _ _ _ _ digit_dot (Z_str_digits _ (Q _)) (Z_str_digits _ (Q _)) H1) as [E2 H2].
  destruct (split_unique is_digit "." _ _ _ _ digit_dot (Z_str_digits _ (Q _)) (Z_str_digits _ (Q _)) H2) as [E3 E4].
  apply Z_str_inj in E1; [|apply P; lia|apply P; lia]. apply Z_str_inj in E2; [|apply Q|apply Q].
  apply Z_str_inj in E3; [|apply Q|apply Q]. apply Z_str_inj in E4; [|apply Q|apply Q].
  clear H H1 H2 P Q.
  pose proof (Z.div_mod a 256 ltac:(lia)). pose proof (Z.div_mod b 256 ltac:(lia)).
  pose proof (Z.div_mod (a / 256) 256 ltac:(lia)). pose proof (Z.div_mod (b / 256) 256 ltac:(lia)).
  pose proof (Z.div_mod (a / 256 / 256) 256 ltac:(lia)). pose proof (Z.div_mod (b / 256 / 256) 256 ltac:(lia)).
  rewrite !Z.div_div in * by lia. change (256 * 256)%Z with 65536%Z in *. change (65536 * 256)%Z with 16777216%Z in *.
  assert (((a / 65536) mod 256) = ((a / 65536) - 256 * (a / 16777216)))%Z by lia.
  lia.
Qed.

(* ---- peers ---- *)
Definition name_ok (s : string) : Prop := all_chars plain s = true /\ all_chars is_rangec s = false.
Definition peer_ok (p : rpeer) : Prop :=
  match p with RW s => name_ok s | RIP lo hi => (0 <= lo /\ 0 <= hi)%Z end.

Lemma range_chars lo hi : (0 <= lo)%Z -> (0 <= hi)%Z -> all_chars is_rangec (ip_str lo ++ "-" ++ ip_str hi) = true.
Proof.
  intros H1 H2. rewrite !all_chars_app. cbn.
  rewrite (all_chars_weaken is_ipc is_rangec _ ipc_rangec (ip_str_chars lo H1)).
  rewrite (all_chars_weaken is_ipc is_rangec _ ipc_rangec (ip_str_chars hi H2)). reflexivity.
Qed.

Lemma rpeer_str_plain p : peer_ok p -> all_chars plain (rpeer_str p) = true.
Proof.
  destruct p as [s|lo hi]; cbn [peer_ok rpeer_str]; [intros [H _]; exact H|]. intros [H1 H2].
  apply (all_chars_weaken is_rangec); [exact rangec_plain|apply range_chars; assumption].
Qed.

Lemma ipc_dash : is_ipc "-" = false. Proof. reflexivity. Qed.

Lemma rpeer_str_inj p q : peer_ok p -> peer_ok q -> rpeer_str p = rpeer_str q -> p = q.
Proof.
  destruct p as [s|lo hi], q as [t|lo' hi']; cbn [peer_ok rpeer_str].
  - intros _ _ ->. reflexivity.
  - intros [_ N] [H1 H2] E. subst s. rewrite range_chars in N by assumption. discriminate.
  - intros [H1 H2] [_ N] E. subst t. rewrite range_chars in N by assumption. discriminate.
  - intros [H1 H2] [H3 H4] E. cbn [append] in E.
    destruct (split_unique is_ipc "-" _ _ _ _ ipc_dash (ip_str_chars _ H1) (ip_str_chars _ H3) E) as [E1 E2].
    apply ip_str_inj in E1; [|assumption|assumption]. apply ip_str_inj in E2; [|assumption|assumption]. subst. reflexivity.
Qed.

(* ---- entries and lines ---- *)
Definition entry_ok (e : rentry) : Prop := peer_ok (re_src e) /\ peer_ok (re_dst e) /\ cs_ninv (re_conn e).

Lemma plain_space : plain " " = false. Proof. reflexivity. Qed.

Lemma txt_line_inj e e' : entry_ok e -> entry_ok e' -> txt_line (row_of e) = txt_line (row_of e') -> e = e'.
Proof.
  intros (S1 & D1 & C1) (S2 & D2 & C2). destruct e as [s d c], e' as [s' d' c']. cbn [re_src re_dst re_conn] in *.
  unfold txt_line, row_of. cbn [r_src r_dst r_conn append]. intros H.
  destruct (split_unique plain " " _ _ _ _ plain_space (rpeer_str_plain _ S1) (rpeer_str_plain _ S2) H) as [E1 H1].
  injection H1 as H1.
  destruct (split_unique plain " " _ _ _ _ plain_space (rpeer_str_plain _ D1) (rpeer_str_plain _ D2) H1) as [E2 H2].
  injection H2 as H2.
  apply rpeer_str_inj in E1; [|assumption|assumption]. apply rpeer_str_inj in E2; [|assumption|assumption].
  apply cs_string_inj in H2; [|assumption|assumption]. subst. reflexivity.
Qed.

Lemma txt_line_not_nl e : entry_ok e -> all_chars not_nl (txt_line (row_of e)) = true.
Proof.
  intros (S1 & D1 & C1). unfold txt_line, row_of. cbn [r_src r_dst r_conn]. rewrite !all_chars_app.
  rewrite (all_chars_weaken plain not_nl _ plain_not_nl (rpeer_str_plain _ S1)).
  rewrite (all_chars_weaken plain not_nl _ plain_not_nl (rpeer_str_plain _ D1)).
  rewrite (all_chars_weaken conn_char not_nl _ conn_not_nl (cs_string_chars _ C1)). reflexivity.
Qed.

(* ---- whole outputs ---- *)
Lemma length_append a b : String.length (a ++ b) = (String.length a + String.length b)%nat.
Proof. induction a as [|x a IH]; cbn; [reflexivity|]. rewrite IH. reflexivity. Qed.

Lemma append_inj_r (a b c : string) : a ++ c = b ++ c -> a = b.
Proof.
  revert b. induction a as [|x a IH]; intros [|y b] H; cbn in H.
  - reflexivity.
  - exfalso. apply (f_equal String.length) in H. cbn in H. rewrite length_append in H. lia.
  - exfalso. apply (f_equal String.length) in H. cbn in H. rewrite length_append in H. lia.
  - injection H as -> H. f_equal. exact (IH b H).
Qed.

Lemma join_nonempty sep h t : h <> "" -> join sep (h :: t) <> "".
Proof. intros Hh. destruct h as [|x h]; [congruence|]. destruct t; discriminate. Qed.

Lemma join_nl_inj (l l' : list string) :
  Forall (fun s => all_chars not_nl s = true /\ s <> "") l -> Forall (fun s => all_chars not_nl s = true /\ s <> "") l' ->
  join nl l = join nl l' -> l = l'.
Proof.
  intros Hl Hl' H.
  assert (W : forall q, Forall (fun s => all_chars not_nl s = true /\ s <> "") q -> Forall (fun s => all_chars not_nl s = true) q).
  { intros q Hq. eapply Forall_impl; [|exact Hq]. cbn. tauto. }
  destruct l as [|x l], l' as [|y l'].
  - reflexivity.
  - exfalso. inversion Hl' as [|? ? [_ N] _]; subst. change (join nl []) with EmptyString in H. symmetry in H. exact (join_nonempty nl y l' N H).
  - exfalso. inversion Hl as [|? ? [_ N] _]; subst. change (join nl []) with EmptyString in H. exact (join_nonempty nl x l N H).
  - apply (join_inj not_nl nlc); [reflexivity|apply W; exact Hl|apply W; exact Hl'|discriminate|discriminate|exact H].
Qed.

Lemma perm_map_inj_on {A B} (f : A -> B) (P : A -> Prop) (l l' : list A) :
  (forall x y, P x -> P y -> f x = f y -> x = y) -> Forall P l -> Forall P l' ->
  Permutation (map f l) (map f l') -> Permutation l l'.
Proof.
  intros Hf Hl Hl' Hp. destruct (Permutation_map_inv f l' Hp) as (l3 & E & P3).
  assert (F3 : Forall P l3). { rewrite Forall_forall in *. intros x Hx. apply Hl'. apply (Permutation_in x (Permutation_sym P3)). exact Hx. }
  apply (map_inj_on f P) in E; [|exact Hf|exact Hl|exact F3]. subst l3. apply Permutation_sym. exact P3.
Qed.

Theorem list_txt_inj es es' :
  Forall entry_ok es -> Forall entry_ok es' -> list_txt es = list_txt es' -> Permutation es es'.
Proof.
  intros Hes Hes' H. unfold list_txt in H. apply append_inj_r in H.
  set (f := fun e => txt_line (row_of e)) in *.
  assert (G : forall q, Forall entry_ok q -> Forall (fun s => all_chars not_nl s = true /\ s <> "") (strsort (map f q))).
  { intros q Hq. apply Forall_forall. intros s Hs. apply (Permutation_in s (strsort_perm (map f q))) in Hs.
    apply in_map_iff in Hs. destruct Hs as (e & <- & He). rewrite Forall_forall in Hq. split.
    - apply txt_line_not_nl. exact (Hq e He).
    - unfold f, txt_line. destruct (r_src (row_of e)); discriminate. }
  apply join_nl_inj in H; [|apply G; exact Hes|apply G; exact Hes'].
  apply (perm_map_inj_on f entry_ok); [exact txt_line_inj|exact Hes|exact Hes'|].
  eapply Permutation_trans; [apply Permutation_sym; apply strsort_perm|]. rewrite H. apply strsort_perm.
Qed.

(* ---- md ---- *)
Lemma row_of_inj e e' : entry_ok e -> entry_ok e' -> row_of e = row_of e' -> e = e'.
Proof. intros H1 H2 E. apply txt_line_inj; [exact H1|exact H2|]. rewrite E. reflexivity. Qed.

Lemma md_line_inj e e' : entry_ok e -> entry_ok e' -> md_line (row_of e) = md_line (row_of e') -> e = e'.
Proof.
  intros (S1 & D1 & C1) (S2 & D2 & C2). destruct e as [s d c], e' as [s' d' c']. cbn [re_src re_dst re_conn] in *.
  unfold md_line, row_of. cbn [r_src r_dst r_conn append]. intros H. injection H as H.
  destruct (split_unique plain " " _ _ _ _ plain_space (rpeer_str_plain _ S1) (rpeer_str_plain _ S2) H) as [E1 H1].
  injection H1 as H1.
  destruct (split_unique plain " " _ _ _ _ plain_space (rpeer_str_plain _ D1) (rpeer_str_plain _ D2) H1) as [E2 H2].
  injection H2 as H2. apply append_inj_r in H2.
  apply rpeer_str_inj in E1; [|assumption|assumption]. apply rpeer_str_inj in E2; [|assumption|assumption].
  apply cs_string_inj in H2; [|assumption|assumption]. subst. reflexivity.
Qed.

Lemma md_line_not_nl e : entry_ok e -> all_chars not_nl (md_line (row_of e)) = true.
Proof.
  intros (S1 & D1 & C1). unfold md_line, row_of. cbn [r_src r_dst r_conn]. rewrite !all_chars_app.
  rewrite (all_chars_weaken plain not_nl _ plain_not_nl (rpeer_str_plain _ S1)).
  rewrite (all_chars_weaken plain not_nl _ plain_not_nl (rpeer_str_plain _ D1)).
  rewrite (all_chars_weaken conn_char not_nl _ conn_not_nl (cs_string_chars _ C1)). reflexivity.
Qed.

Lemma rowsort_rows_ok es : Forall entry_ok es ->
  Forall (fun r => exists e, entry_ok e /\ r = row_of e) (rowsort (map row_of es)).
Proof.
  intros H. apply Forall_forall. intros r Hr. apply (Permutation_in r (rowsort_perm (map row_of es))) in Hr.
  apply in_map_iff in Hr. destruct Hr as (e & <- & He). exists e. rewrite Forall_forall in H. split; [exact (H e He)|reflexivity].
Qed.

Theorem list_md_inj es es' :
  Forall entry_ok es -> Forall entry_ok es' -> list_md es = list_md es' -> Permutation es es'.
Proof.
  intros Hes Hes' H. unfold list_md in H. apply append_inj_r in H.
  pose proof (rowsort_rows_ok es Hes) as R. pose proof (rowsort_rows_ok es' Hes') as R'.
  assert (RR : rowsort (map row_of es) = rowsort (map row_of es')).
  { set (L := rowsort (map row_of es)) in *. set (L' := rowsort (map row_of es')) in *.
    assert (G : forall q, Forall (fun r => exists e, entry_ok e /\ r = row_of e) q ->
                          Forall (fun s => all_chars not_nl s = true /\ s <> "") (map md_line q)).
    { intros q Hq. apply Forall_forall. intros s Hs. apply in_map_iff in Hs. destruct Hs as (r & <- & Hr).
      rewrite Forall_forall in Hq. destruct (Hq r Hr) as (e & Ok & ->). split; [apply md_line_not_nl; exact Ok|discriminate]. }
    assert (J : map md_line L = map md_line L').
    { destruct L as [|x L], L' as [|y L'].
      - reflexivity.
      - exfalso. cbn [map] in H. change (join nl [md_header]) with md_header in H. rewrite join_cons in H.
        rewrite <- (append_nil_r md_header) in H at 1. apply append_inj_l in H. discriminate.
      - exfalso. cbn [map] in H. change (join nl [md_header]) with md_header in H. rewrite join_cons in H.
        symmetry in H. rewrite <- (append_nil_r md_header) in H at 1. apply append_inj_l in H. discriminate.
      - cbn [map] in H. rewrite !join_cons in H. apply append_inj_l in H. apply append_inj_l in H.
        apply join_nl_inj in H; [exact H|exact (G _ R)|exact (G _ R')]. }
    apply (map_inj_on md_line (fun r => exists e, entry_ok e /\ r = row_of e)) in J; [exact J| |exact R|exact R'].
    intros r r' (e & Ok & ->) (e' & Ok' & ->) E. f_equal. apply md_line_inj; assumption. }
  apply (perm_map_inj_on row_of entry_ok); [exact row_of_inj|exact Hes|exact Hes'|].
  eapply Permutation_trans; [apply Permutation_sym; apply rowsort_perm|]. rewrite RR. apply rowsort_perm.
Qed.

(* ---- json ---- *)
Lemma plain_quote : plain """" = false. Proof. reflexivity. Qed.
Lemma plain_comma : plain "," = false. Proof. reflexivity. Qed.
Definition not_quote (ch : ascii) : bool := negb (Ascii.eqb ch """").
Lemma conn_not_quote ch : conn_char ch = true -> not_quote ch = true.
Proof. unfold not_quote. destruct (Ascii.eqb_spec ch """"); [subst; cbn; discriminate|reflexivity]. Qed.
Lemma not_quote_quote : not_quote """" = false. Proof. reflexivity. Qed.

Ltac strip H := repeat (match type of H with String _ _ = String _ _ => injection H as H end).

(* an object is self-delimiting: whatever follows it *)
Lemma json_obj_prefix e e' X X' : entry_ok e -> entry_ok e' ->
  json_obj (row_of e) ++ X = json_obj (row_of e') ++ X' -> e = e' /\ X = X'.
Proof.
  intros (S1 & D1 & C1) (S2 & D2 & C2). destruct e as [s d c], e' as [s' d' c']. cbn [re_src re_dst re_conn] in *.
  unfold json_obj, row_of, nl. cbn [r_src r_dst r_conn re_src re_dst re_conn]. rewrite !append_assoc. cbn [append]. intros H.
  strip H.
  destruct (split_unique plain """" _ _ _ _ plain_quote (rpeer_str_plain _ S1) (rpeer_str_plain _ S2) H) as [E1 H1].
  strip H1.
  destruct (split_unique plain """" _ _ _ _ plain_quote (rpeer_str_plain _ D1) (rpeer_str_plain _ D2) H1) as [E2 H2].
  strip H2.
  destruct (split_unique not_quote """" _ _ _ _ not_quote_quote
              (all_chars_weaken conn_char not_quote _ conn_not_quote (cs_string_chars _ C1))
              (all_chars_weaken conn_char not_quote _ conn_not_quote (cs_string_chars _ C2)) H2) as [E3 H3].
  strip H3.
  apply rpeer_str_inj in E1; [|assumption|assumption]. apply rpeer_str_inj in E2; [|assumption|assumption].
  apply cs_string_inj in E3; [|assumption|assumption]. subst. split; reflexivity.
Qed.

Definition row_ok (r : row) : Prop := exists e, entry_ok e /\ r = row_of e.
Definition jsep : string := "," ++ nl.
Definition jtail : string := nl ++ "]".

Lemma json_rows_inj L L' :
  Forall row_ok L -> Forall row_ok L' ->
  join jsep (map json_obj L) ++ jtail = join jsep (map json_obj L') ++ jtail -> L = L'.
Proof.
  revert L'. induction L as [|a L IH]; intros [|a' L'] HL HL' H.
  - reflexivity.
  - exfalso. inversion HL' as [|? ? (e & Ok & ->) _]; subst. cbn [map] in H. destruct (map json_obj L'); cbn in H; discriminate.
  - exfalso. inversion HL as [|? ? (e & Ok & ->) _]; subst. cbn [map] in H. destruct (map json_obj L); cbn in H; discriminate.
  - inversion HL as [|? ? (e & Ok & ->) HL2]; subst. inversion HL' as [|? ? (e' & Ok' & ->) HL2']; subst.
    cbn [map] in H. destruct L as [|b L], L' as [|b' L'].
    + cbn [map join] in H. destruct (json_obj_prefix e e' _ _ Ok Ok' H) as [-> _]. reflexivity.
    + exfalso. cbn [map] in H. rewrite join_cons in H. cbn [join] in H. rewrite !append_assoc in H.
      destruct (json_obj_prefix e e' _ _ Ok Ok' H) as [_ E]. discriminate.
    + exfalso. cbn [map] in H. rewrite join_cons in H. cbn [join] in H. rewrite !append_assoc in H.
      destruct (json_obj_prefix e e' _ _ Ok Ok' H) as [_ E]. discriminate.
    + cbn [map] in H. rewrite !join_cons in H. rewrite !append_assoc in H.
      destruct (json_obj_prefix e e' _ _ Ok Ok' H) as [-> E]. f_equal. apply append_inj_l in E.
      apply IH; [exact HL2|exact HL2'|exact E].
Qed.

Theorem list_json_inj es es' :
  Forall entry_ok es -> Forall entry_ok es' -> list_json es = list_json es' -> Permutation es es'.
Proof.
  intros Hes Hes' H.
  assert (RR : rowsort (map row_of es) = rowsort (map row_of es')).
  { destruct es as [|e es], es' as [|e' es'].
    - reflexivity.
    - exfalso. unfold list_json, nl in H. cbn [append] in H. discriminate.
    - exfalso. unfold list_json, nl in H. cbn [append] in H. discriminate.
    - unfold list_json in H. apply append_inj_l in H. apply append_inj_l in H.
      apply json_rows_inj; [apply rowsort_rows_ok; exact Hes|apply rowsort_rows_ok; exact Hes'|exact H]. }
  apply (perm_map_inj_on row_of entry_ok); [exact row_of_inj|exact Hes|exact Hes'|].
  eapply Permutation_trans; [apply Permutation_sym; apply rowsort_perm|]. rewrite RR. apply rowsort_perm.
Qed.

(* ---- csv ---- *)
Lemma has_char_none f c s : all_chars f s = true -> f c = false -> has_char c s = false.
Proof.
  intros Hs Hc. induction s as [|x s IH]; [reflexivity|]. cbn in *. apply andb_true_iff in Hs. destruct Hs as [Hx Hs].
  rewrite (IH Hs), orb_false_r. destruct (Ascii.eqb_spec x c); [subst; congruence|reflexivity].
Qed.

Lemma double_quotes_id s : has_char """" s = false -> double_quotes s = s.
Proof.
  induction s as [|x s IH]; [reflexivity|]. cbn. intros H. apply orb_false_iff in H. destruct H as [H1 H2].
  rewrite H1, (IH H2). reflexivity.
Qed.

Lemma csv_field_plain s : all_chars plain s = true -> csv_field s = s.
Proof.
  intros H. unfold csv_field. rewrite (has_char_none plain "," s H plain_comma), (has_char_none plain """" s H plain_quote). reflexivity.
Qed.

Lemma csv_field_conn c : cs_ninv c ->
  csv_field (cs_string c) = if has_char "," (cs_string c) then """" ++ cs_string c ++ """" else cs_string c.
Proof.
  intros Hn. unfold csv_field.
  pose proof (has_char_none not_quote """" _ (all_chars_weaken conn_char not_quote _ conn_not_quote (cs_string_chars _ Hn)) not_quote_quote) as Q.
  rewrite Q, orb_false_r, (double_quotes_id _ Q). reflexivity.
Qed.

Definition csv_line (e : rentry) : string := csv_row [r_src (row_of e); r_dst (row_of e); r_conn (row_of e)].

Lemma not_nl_nl : not_nl nlc = false. Proof. reflexivity. Qed.

Lemma csv_line_prefix e e' X X' : entry_ok e -> entry_ok e' ->
  csv_line e ++ X = csv_line e' ++ X' -> e = e' /\ X = X'.
Proof.
  intros (S1 & D1 & C1) (S2 & D2 & C2). destruct e as [s d c], e' as [s' d' c']. cbn [re_src re_dst re_conn] in *.
  unfold csv_line, csv_row, row_of. cbn [r_src r_dst r_conn re_src re_dst re_conn map].
  rewrite !(csv_field_plain _ (rpeer_str_plain _ S1)), !(csv_field_plain _ (rpeer_str_plain _ D1)).
  rewrite !(csv_field_plain _ (rpeer_str_plain _ S2)), !(csv_field_plain _ (rpeer_str_plain _ D2)).
  rewrite !join_cons. cbn [join]. rewrite !append_assoc. cbn [append]. intros H.
  destruct (split_unique plain "," _ _ _ _ plain_comma (rpeer_str_plain _ S1) (rpeer_str_plain _ S2) H) as [E1 H1].
  destruct (split_unique plain "," _ _ _ _ plain_comma (rpeer_str_plain _ D1) (rpeer_str_plain _ D2) H1) as [E2 H2].
  apply rpeer_str_inj in E1; [|assumption|assumption]. apply rpeer_str_inj in E2; [|assumption|assumption]. subst s' d'.
  pose proof (all_chars_weaken conn_char not_quote _ conn_not_quote (cs_string_chars _ C1)) as Q1.
  pose proof (all_chars_weaken conn_char not_quote _ conn_not_quote (cs_string_chars _ C2)) as Q2.
  pose proof (all_chars_weaken conn_char not_nl _ conn_not_nl (cs_string_chars _ C1)) as N1.
  pose proof (all_chars_weaken conn_char not_nl _ conn_not_nl (cs_string_chars _ C2)) as N2.
  assert (MIX : forall a b Z, all_chars not_quote b = true -> String """" a = b ++ String nlc Z -> False).
  { intros a b Z Hb E. destruct b as [|x b]; cbn in E; [discriminate|]. injection E as E _. subst x. cbn in Hb. discriminate. }
  rewrite (csv_field_conn c C1), (csv_field_conn c' C2) in H2.
  destruct (has_char "," (cs_string c)), (has_char "," (cs_string c')); unfold nl in H2; rewrite ?append_assoc in H2; cbn [append] in H2.
  - strip H2. destruct (split_unique not_quote """" _ _ _ _ not_quote_quote Q1 Q2 H2) as [E3 H3]. strip H3.
    apply cs_string_inj in E3; [|assumption|assumption]. subst. split; reflexivity.
  - exfalso. exact (MIX _ _ _ Q2 H2).
  - exfalso. symmetry in H2. exact (MIX _ _ _ Q1 H2).
  - destruct (split_unique not_nl nlc _ _ _ _ not_nl_nl N1 N2 H2) as [E3 H3].
    apply cs_string_inj in E3; [|assumption|assumption]. subst. split; reflexivity.
Qed.

Definition csv_body (L : list rentry) : string := fold_right (fun e acc => csv_line e ++ acc) EmptyString L.

Lemma csv_line_nonempty e : csv_line e <> "".
Proof.
  unfold csv_line, csv_row, nl. intros E. apply (f_equal String.length) in E. rewrite length_append in E. cbn in E. lia.
Qed.

Lemma csv_body_inj L L' : Forall entry_ok L -> Forall entry_ok L' -> csv_body L = csv_body L' -> L = L'.
Proof.
  revert L'. induction L as [|a L IH]; intros [|a' L'] HL HL' H; cbn [csv_body fold_right] in H.
  - reflexivity.
  - exfalso. symmetry in H. pose proof (csv_line_nonempty a'). destruct (csv_line a'); [congruence|discriminate].
  - exfalso. pose proof (csv_line_nonempty a). destruct (csv_line a); [congruence|discriminate].
  - inversion HL; subst. inversion HL'; subst.
    destruct (csv_line_prefix a a' _ _ ltac:(assumption) ltac:(assumption) H) as [-> E]. f_equal. apply IH; assumption.
Qed.

Lemma csv_fold_rows L :
  fold_right (fun r acc => csv_row [r_src r; r_dst r; r_conn r] ++ acc) EmptyString (map row_of L) = csv_body L.
Proof. induction L as [|a L IH]; [reflexivity|]. cbn [map fold_right csv_body]. rewrite IH. reflexivity. Qed.

Theorem list_csv_inj es es' :
  Forall entry_ok es -> Forall entry_ok es' -> list_csv es = list_csv es' -> Permutation es es'.
Proof.
  intros Hes Hes' H. unfold list_csv in H. apply append_inj_l in H.
  (* the sorted rows are the rows of a permutation of the entries *)
  assert (S : forall q, Forall entry_ok q -> exists q', Permutation q q' /\ Forall entry_ok q' /\ rowsort (map row_of q) = map row_of q').
  { intros q Hq. destruct (Permutation_map_inv row_of q (rowsort_perm (map row_of q))) as (q' & E & P).
    exists q'. split; [exact P|]. split; [|exact E]. rewrite Forall_forall in *. intros x Hx. apply Hq.
    apply (Permutation_in x (Permutation_sym P)). exact Hx. }
  destruct (S es Hes) as (q & P & Fq & E). destruct (S es' Hes') as (q' & P' & Fq' & E').
  rewrite E, E', !csv_fold_rows in H. apply csv_body_inj in H; [|exact Fq|exact Fq']. subst q'.
  eapply Permutation_trans; [exact P|apply Permutation_sym; exact P'].
Qed.

(* ---- boolean form of the printability condition: run on the implementation's reports by the check ---- *)
Definition rpeer_printableb (p : rpeer) : bool :=
  match p with
  | RW s => all_chars plain s && negb (all_chars is_rangec s)
  | RIP lo hi => (0 <=? lo)%Z && (0 <=? hi)%Z
  end.
Definition entry_printableb (e : rentry) : bool :=
  rpeer_printableb (re_src e) && rpeer_printableb (re_dst e) && cs_ninvb (re_conn e).

Lemma entry_printableb_spec e : entry_printableb e = true -> entry_ok e.
Proof.
  unfold entry_printableb, entry_ok. rewrite !andb_true_iff. intros [[H1 H2] H3].
  assert (P : forall p, rpeer_printableb p = true -> peer_ok p).
  { intros [s|lo hi]; cbn [rpeer_printableb peer_ok]; rewrite andb_true_iff.
    - intros [A B]. split; [exact A|]. apply negb_true_iff in B. exact B.
    - intros [A B]. lia. }
  split; [exact (P _ H1)|]. split; [exact (P _ H2)|]. apply cs_ninvb_spec. exact H3.
Qed.

Lemma entries_printable es : forallb entry_printableb es = true -> Forall entry_ok es.
Proof. intros H. apply Forall_forall. intros e He. apply entry_printableb_spec. rewrite forallb_forall in H. exact (H e He). Qed.

(* run by the check on the implementation's API results: the hypothesis of the theorems above *)
Definition printable_mismatches (cs : list fmt_case) : list (nat * nat) :=
  flat_map (fun c => if forallb entry_printableb (fm_entries c) then [] else [(fm_id c, 5%nat)]) cs.

(* the four formats carry the same information *)
Corollary formats_equivalent es es' : Forall entry_ok es -> Forall entry_ok es' ->
  (list_txt es = list_txt es' <-> list_md es = list_md es') /\
  (list_txt es = list_txt es' <-> list_csv es = list_csv es') /\
  (list_txt es = list_txt es' <-> list_json es = list_json es').
Proof.
  intros H H'. repeat split; intros E.
  - apply list_md_perm_invariant. apply list_txt_inj; assumption.
  - apply list_txt_perm_invariant. apply list_md_inj; assumption.
  - apply list_csv_perm_invariant. apply list_txt_inj; assumption.
  - apply list_txt_perm_invariant. apply list_csv_inj; assumption.
  - apply list_json_perm_invariant. apply list_txt_inj; assumption.
  - apply list_txt_perm_invariant. apply list_json_inj; assumption.
Qed.
