(* SortGeneric.v — sorting by a total order is a function of the multiset: two sorted permutations of
   one list are equal (any correct sort.Strings / sort.Slice gives one answer), and the insertion sort
   used by the format models is such a sort.  The order on strings is Coq's String.leb, whose
   transitivity is proved here.  No axioms. *)
From Coq Require Import List Bool Arith NArith String Ascii Permutation Sorting.Sorted Lia.
Import ListNotations.

Section Sort.
  Variable A : Type.
  Variable leb : A -> A -> bool.
  Hypothesis leb_total : forall a b, leb a b = true \/ leb b a = true.
  Hypothesis leb_antisym : forall a b, leb a b = true -> leb b a = true -> a = b.
  Hypothesis leb_trans : forall a b c, leb a b = true -> leb b c = true -> leb a c = true.

  Fixpoint insert (x : A) (l : list A) : list A :=
    match l with
    | [] => [x]
    | y :: t => if leb x y then x :: l else y :: insert x t
    end.
  Definition isort (l : list A) : list A := fold_right insert [] l.

  Definition le (a b : A) : Prop := leb a b = true.

  Lemma insert_perm x l : Permutation (insert x l) (x :: l).
  Proof.
    induction l as [|y t IH]; cbn [insert]; [apply Permutation_refl|].
    destruct (leb x y); [apply Permutation_refl|].
    eapply Permutation_trans; [apply perm_skip, IH | apply perm_swap].
  Qed.

  Lemma isort_perm l : Permutation (isort l) l.
  Proof.
    induction l as [|a t IH]; cbn; [apply perm_nil|].
    eapply Permutation_trans; [apply insert_perm | apply perm_skip, IH].
  Qed.

  Lemma insert_sorted x l : StronglySorted le l -> StronglySorted le (insert x l).
  Proof.
    induction l as [|y t IH]; cbn [insert]; intros Hs.
    - constructor; [constructor | constructor].
    - apply StronglySorted_inv in Hs. destruct Hs as [Ht Hy].
      destruct (leb x y) eqn:E.
      + constructor; [constructor; assumption|]. constructor; [exact E|].
        rewrite Forall_forall in *. intros z Hz. eapply leb_trans; [exact E | apply Hy; exact Hz].
      + constructor; [apply IH; exact Ht|].
        rewrite Forall_forall in *. intros z Hz. apply (Permutation_in _ (insert_perm x t)) in Hz.
        destruct Hz as [<- | Hz]; [|apply Hy; exact Hz].
        destruct (leb_total x y) as [H | H]; [unfold le in *; congruence | exact H].
  Qed.

  Lemma isort_sorted l : StronglySorted le (isort l).
  Proof. induction l as [|a t IH]; cbn; [constructor | apply insert_sorted; exact IH]. Qed.

  (* two sorted permutations of one list are equal *)
  Theorem sorted_perm_eq l1 : forall l2,
    StronglySorted le l1 -> StronglySorted le l2 -> Permutation l1 l2 -> l1 = l2.
  Proof.
    induction l1 as [|a t1 IH]; intros l2 H1 H2 Hp.
    - apply Permutation_nil in Hp. subst; reflexivity.
    - destruct l2 as [|b t2]; [apply Permutation_sym, Permutation_nil in Hp; discriminate|].
      apply StronglySorted_inv in H1, H2. destruct H1 as [Ht1 Ha], H2 as [Ht2 Hb].
      rewrite Forall_forall in Ha, Hb.
      assert (Hab : a = b).
      { assert (Ia : In a (b :: t2)) by (eapply Permutation_in; [exact Hp | left; reflexivity]).
        assert (Ib : In b (a :: t1)) by (eapply Permutation_in; [apply Permutation_sym, Hp | left; reflexivity]).
        destruct Ia as [<- | Ia]; [reflexivity|]. destruct Ib as [<- | Ib]; [reflexivity|].
        apply leb_antisym; [apply Ha; exact Ib | apply Hb; exact Ia]. }
      subst b. f_equal. apply IH; try assumption. eapply Permutation_cons_inv; exact Hp.
  Qed.

  (* hence sorting does not depend on the order of the input *)
  Theorem isort_perm_invariant l1 l2 : Permutation l1 l2 -> isort l1 = isort l2.
  Proof.
    intros Hp. apply sorted_perm_eq; try apply isort_sorted.
    eapply Permutation_trans; [apply isort_perm|]. eapply Permutation_trans; [exact Hp | apply Permutation_sym, isort_perm].
  Qed.

  (* and any other correct sort agrees with it *)
  Theorem any_sort_agrees (srt : list A -> list A) l :
    Permutation (srt l) l -> StronglySorted le (srt l) -> srt l = isort l.
  Proof.
    intros Hp Hs. apply sorted_perm_eq; [exact Hs | apply isort_sorted|].
    eapply Permutation_trans; [exact Hp | apply Permutation_sym, isort_perm].
  Qed.
End Sort.

(* ---------- the order on strings ---------- *)
Lemma ascii_compare_trans_lt a b c :
  Ascii.compare a b = Lt -> Ascii.compare b c = Lt -> Ascii.compare a c = Lt.
Proof. unfold Ascii.compare. rewrite !N.compare_lt_iff. lia. Qed.

Lemma ascii_compare_eq a b : Ascii.compare a b = Eq -> a = b.
Proof. apply Ascii.compare_eq_iff. Qed.

Lemma string_compare_refl s : String.compare s s = Eq.
Proof.
  induction s as [|a s IH]; cbn [String.compare]; [reflexivity|].
  unfold Ascii.compare. rewrite N.compare_refl. exact IH.
Qed.

Lemma string_lt_trans a : forall b c,
  String.compare a b = Lt -> String.compare b c = Lt -> String.compare a c = Lt.
Proof.
  induction a as [|x a IH]; intros [|y b] [|z c]; cbn [String.compare]; try discriminate; try reflexivity.
  destruct (Ascii.compare x y) eqn:Exy; try discriminate.
  - apply ascii_compare_eq in Exy. subst y.
    destruct (Ascii.compare x z) eqn:Exz; try discriminate; [apply IH | reflexivity].
  - intros _. destruct (Ascii.compare y z) eqn:Eyz; try discriminate.
    + apply ascii_compare_eq in Eyz. subst z. rewrite Exy. reflexivity.
    + intros _. rewrite (ascii_compare_trans_lt _ _ _ Exy Eyz). reflexivity.
Qed.

Lemma string_leb_trans a b c : String.leb a b = true -> String.leb b c = true -> String.leb a c = true.
Proof.
  unfold String.leb.
  destruct (String.compare a b) eqn:Eab; try discriminate; intros _;
  destruct (String.compare b c) eqn:Ebc; try discriminate; intros _.
  - apply String.compare_eq_iff in Eab, Ebc. subst. rewrite string_compare_refl. reflexivity.
  - apply String.compare_eq_iff in Eab. subst. rewrite Ebc. reflexivity.
  - apply String.compare_eq_iff in Ebc. subst. rewrite Eab. reflexivity.
  - rewrite (string_lt_trans _ _ _ Eab Ebc). reflexivity.
Qed.

Definition ssort : list string -> list string := isort string String.leb.

Theorem ssort_perm_invariant l1 l2 : Permutation l1 l2 -> ssort l1 = ssort l2.
Proof. apply isort_perm_invariant; [apply String.leb_total | apply String.leb_antisym | apply string_leb_trans]. Qed.

Theorem ssort_is_the_sort (srt : list string -> list string) l :
  Permutation (srt l) l -> StronglySorted (fun a b => String.leb a b = true) (srt l) -> srt l = ssort l.
Proof. apply any_sort_agrees; [apply String.leb_total | apply String.leb_antisym | apply string_leb_trans]. Qed.
