(* PartitionProofs.v — the IP peers of a report are blocks on which every rule of the input is constant: what the report says
   of a block is true of every single address in it (C01, C02, C05).  No axioms. *)
From Coq Require Import List ZArith Bool String Lia ZifyBool.
From NP Require Import IntervalSet IntervalSetProofs ConnSet World Eval Spec Build Connlist.
Import ListNotations.
Open Scope list_scope.
Open Scope Z_scope.

Fixpoint ssorted (l : list Z) : Prop :=
  match l with
  | [] => True
  | x :: t => (forall y, In y t -> x < y) /\ ssorted t
  end.

Lemma zinsert_in x l y : In y (zinsert x l) <-> y = x \/ In y l.
Proof.
  induction l as [|z t IH]; cbn [zinsert In].
  - split; intros H; destruct H as [H|H]; auto.
  - destruct (x <? z) eqn:E1.
    + cbn [In]. split; intros H; destruct H as [H|H]; auto.
    + destruct (x =? z) eqn:E2.
      * apply Z.eqb_eq in E2. subst z. cbn [In]. split; intros H; [right; exact H|]. destruct H as [H|H]; [left; auto|exact H].
      * cbn [In]. rewrite IH. split; intros H.
        -- destruct H as [H|[H|H]]; auto.
        -- destruct H as [H|[H|H]]; auto.
Qed.

Lemma zinsert_sorted x l : ssorted l -> ssorted (zinsert x l).
Proof.
  induction l as [|z t IH]; intros Hs; cbn [zinsert].
  - cbn [ssorted In]. split; [intros y []|exact I].
  - destruct Hs as [Hz Ht]. destruct (x <? z) eqn:E1.
    + cbn [ssorted]. split; [|split; assumption]. intros y [Hy|Hy]; [lia|]. specialize (Hz y Hy). lia.
    + destruct (x =? z) eqn:E2; [split; assumption|].
      cbn [ssorted]. split; [|apply IH; exact Ht]. intros y Hy. apply zinsert_in in Hy. destruct Hy as [Hy|Hy]; [lia|apply Hz; exact Hy].
Qed.

Definition cuts_of (blocks : list ivl) : list Z :=
  fold_left (fun acc b => zinsert (fst b) (zinsert (snd b + 1) acc)) blocks [0; maxIP + 1].

Lemma cuts_fold_props blocks : forall acc,
  ssorted acc ->
  let c := fold_left (fun acc b => zinsert (fst b) (zinsert (snd b + 1) acc)) blocks acc in
  ssorted c /\ (forall y, In y acc -> In y c) /\ (forall b, In b blocks -> In (fst b) c /\ In (snd b + 1) c).
Proof.
  induction blocks as [|b t IH]; intros acc Hs; cbn [fold_left]; cbn zeta.
  - split; [exact Hs|]. split; [auto|]. intros b [].
  - destruct (IH (zinsert (fst b) (zinsert (snd b + 1) acc)) (zinsert_sorted _ _ (zinsert_sorted _ _ Hs))) as (I1 & I2 & I3). cbn zeta in *.
    split; [exact I1|]. split.
    + intros y Hy. apply I2. apply zinsert_in. right. apply zinsert_in. right. exact Hy.
    + intros b' [He|Hin]; [|apply I3; exact Hin]. subst b'. split; apply I2.
      * apply zinsert_in. left. reflexivity.
      * apply zinsert_in. right. apply zinsert_in. left. reflexivity.
Qed.

Lemma blocks_of_cuts_cons2 a b t : blocks_of_cuts (a :: b :: t) = (a, b - 1) :: blocks_of_cuts (b :: t).
Proof. reflexivity. Qed.

Lemma blocks_fst_in cuts : forall P, In P (blocks_of_cuts cuts) -> In (fst P) cuts.
Proof.
  induction cuts as [|a t IH]; intros P H; [cbn in H; destruct H|].
  destruct t as [|b t']; [cbn in H; destruct H|]. rewrite blocks_of_cuts_cons2 in H. destruct H as [H|H].
  - subst P. left. reflexivity.
  - right. apply IH. exact H.
Qed.

Lemma blocks_no_cut_inside cuts : ssorted cuts ->
  forall P, In P (blocks_of_cuts cuts) -> fst P <= snd P /\ forall c, In c cuts -> c <= fst P \/ snd P < c.
Proof.
  induction cuts as [|a t IH]; intros Hs P HP; [cbn in HP; destruct HP|].
  destruct t as [|b t']; [cbn in HP; destruct HP|]. rewrite blocks_of_cuts_cons2 in HP. destruct Hs as [Ha Ht].
  destruct HP as [HP|HP].
  - subst P. cbn [fst snd]. pose proof (Ha b (or_introl eq_refl)) as Hab. split; [lia|].
    intros c [Hc|[Hc|Hc]]; [left; lia|right; lia|]. cbn [ssorted] in Ht. destruct Ht as [Hb _]. specialize (Hb c Hc). right. lia.
  - destruct (IH Ht P HP) as [I1 I2]. split; [exact I1|]. intros c [Hc|Hc]; [|apply I2; exact Hc].
    subst c. left. pose proof (blocks_fst_in _ P HP) as Hfst. specialize (Ha (fst P) Hfst). lia.
Qed.

(* every referenced interval is constant on every block of the partition *)
Theorem interval_constant_on_block blocks I P x y :
  In I blocks -> In P (ip_partition blocks) ->
  fst P <= x <= snd P -> fst P <= y <= snd P -> in_ivl x I = in_ivl y I.
Proof.
  intros HI HP Hx Hy. unfold ip_partition in HP.
  assert (Hs0 : ssorted [0; maxIP + 1]).
  { cbn [ssorted In]. split; [intros z [Hz|[]]; subst z; unfold maxIP; lia|]. split; [intros z []|exact Logic.I]. }
  destruct (cuts_fold_props blocks [0; maxIP + 1] Hs0) as (C1 & _ & C3). cbn zeta in *.
  destruct (blocks_no_cut_inside _ C1 P HP) as [_ Hno]. destruct (C3 I HI) as [Hlo Hhi].
  pose proof (Hno _ Hlo) as H1. pose proof (Hno _ Hhi) as H2. unfold in_ivl. lia.
Qed.

Lemma imem_constant_on_block blocks s P x y :
  (forall v, In v s -> In v blocks) -> In P (ip_partition blocks) ->
  fst P <= x <= snd P -> fst P <= y <= snd P -> imem x s = imem y s.
Proof.
  intros Hs HP Hx Hy. rewrite !imem_existsb. induction s as [|v t IH]; cbn [existsb]; [reflexivity|].
  rewrite (interval_constant_on_block blocks v P x y (Hs v (or_introl eq_refl)) HP Hx Hy).
  rewrite IH; [reflexivity|]. intros u Hu. apply Hs. right. exact Hu.
Qed.

(* ---------- every ipBlock of every rule is among the referenced blocks ---------- *)
Lemma peers_blocks_in peers : forall l, peers_blocks peers = Ok l ->
  forall cidr exc v, In (NPIP cidr exc) peers -> In v (rule_block cidr exc) -> In v l.
Proof.
  induction peers as [|pr t IH]; intros l H cidr exc v Hin Hv; [destruct Hin|]. cbn [peers_blocks] in H.
  destruct pr as [nss pods | c e | | | ].
  - destruct Hin as [He|Hin]; [discriminate He|]. apply (IH l H cidr exc v Hin Hv).
  - destruct (peers_blocks t) as [r|er] eqn:Er; cbn [bind] in H; [|discriminate H]. inversion H; subst l.
    destruct Hin as [He|Hin].
    + inversion He; subst c e. apply in_or_app. left. exact Hv.
    + apply in_or_app. right. apply (IH r eq_refl cidr exc v Hin Hv).
  - discriminate H.
  - destruct Hin as [He|Hin]; [discriminate He|]. apply (IH l H cidr exc v Hin Hv).
  - destruct Hin as [He|Hin]; [discriminate He|]. apply (IH l H cidr exc v Hin Hv).
Qed.

Lemma rules_blocks_in rules : forall l, rules_blocks rules = Ok l ->
  forall r cidr exc v, In r rules -> In (NPIP cidr exc) (nr_peers r) -> In v (rule_block cidr exc) -> In v l.
Proof.
  induction rules as [|r0 t IH]; intros l H r cidr exc v Hr Hin Hv; [destruct Hr|]. cbn [rules_blocks] in H.
  destruct (peers_blocks (nr_peers r0)) as [a|er] eqn:Ea; cbn [bind] in H; [|discriminate H].
  destruct (rules_blocks t) as [b|er] eqn:Eb; cbn [bind] in H; [|discriminate H]. inversion H; subst l.
  apply in_or_app. destruct Hr as [He|Hr].
  - subst r0. left. apply (peers_blocks_in _ _ Ea cidr exc v Hin Hv).
  - right. apply (IH b eq_refl r cidr exc v Hr Hin Hv).
Qed.

Lemma referenced_blocks_in nps : forall l, referenced_blocks nps = Ok l ->
  forall np r cidr exc v, In np nps -> In r (np_in np) \/ In r (np_eg np) ->
                          In (NPIP cidr exc) (nr_peers r) -> In v (rule_block cidr exc) -> In v l.
Proof.
  induction nps as [|np0 t IH]; intros l H np r cidr exc v Hnp Hr Hin Hv; [destruct Hnp|]. cbn [referenced_blocks] in H.
  destruct (rules_blocks (np_in np0)) as [a|er] eqn:Ea; cbn [bind] in H; [|discriminate H].
  destruct (rules_blocks (np_eg np0)) as [b|er] eqn:Eb; cbn [bind] in H; [|discriminate H].
  destruct (referenced_blocks t) as [c|er] eqn:Ec; cbn [bind] in H; [|discriminate H]. inversion H; subst l.
  destruct Hnp as [He|Hnp].
  - subst np0. destruct Hr as [Hr|Hr].
    + apply in_or_app. left. apply (rules_blocks_in _ _ Ea r cidr exc v Hr Hin Hv).
    + apply in_or_app. right. apply in_or_app. left. apply (rules_blocks_in _ _ Eb r cidr exc v Hr Hin Hv).
  - apply in_or_app. right. apply in_or_app. right. apply (IH c eq_refl np r cidr exc v Hnp Hr Hin Hv).
Qed.

(* ---------- an address and the block it lies in are matched by the same ipBlock peers ---------- *)
Lemma canon_single a b : a <= b -> canon [(a, b)].
Proof. intros H. cbn [canon lb_canon]. lia. Qed.

Lemma subset_block_iff_member blocks s P x :
  (forall v, In v s -> In v blocks) -> In P (ip_partition blocks) -> fst P <= x <= snd P ->
  isubset [P] s = isubset [(x, x)] s.
Proof.
  intros Hs HP Hx. destruct P as [a b]. cbn [fst snd] in Hx.
  assert (Hmem : forall y, a <= y <= b -> imem y s = imem x s).
  { intros y Hy. apply (imem_constant_on_block blocks s (a, b) y x Hs HP); cbn [fst snd]; lia. }
  assert (Hab : a <= b) by lia.
  assert (Hiff : isubset [(a, b)] s = true <-> isubset [(x, x)] s = true).
  { rewrite (isubset_spec [(a, b)] s (canon_single a b Hab)), (isubset_spec [(x, x)] s (canon_single x x (Z.le_refl x))). split.
    - intros H y Hy. cbn [imem] in Hy. rewrite orb_false_r in Hy. unfold in_ivl in Hy. cbn [fst snd] in Hy.
      assert (y = x) by lia. subst y. apply H. cbn [imem]. unfold in_ivl. cbn [fst snd]. rewrite orb_false_r. lia.
    - intros H y Hy. cbn [imem] in Hy. rewrite orb_false_r in Hy. unfold in_ivl in Hy. cbn [fst snd] in Hy.
      rewrite (Hmem y ltac:(lia)). apply H. cbn [imem]. unfold in_ivl. cbn [fst snd]. rewrite !Z.leb_refl. reflexivity. }
  destruct (isubset [(a, b)] s) eqn:E1; destruct (isubset [(x, x)] s) eqn:E2.
  - exact E1.
  - destruct Hiff as [H1 _]. pose proof (H1 eq_refl) as X. discriminate X.
  - destruct Hiff as [_ H2]. pose proof (H2 eq_refl) as X. discriminate X.
  - exact E1.
Qed.

Section Uniform.
Variable w : world.
Variable blocks : list ivl.
Hypothesis Hblocks : referenced_blocks (w_nps w) = Ok blocks.
Variable P : ivl.
Hypothesis HP : In P (ip_partition blocks).
Variable x : Z.
Hypothesis Hx : fst P <= x <= snd P.

Lemma peer_matches_uniform np r pr :
  In np (w_nps w) -> In r (np_in np) \/ In r (np_eg np) -> In pr (nr_peers r) ->
  s_np_peer_matches (np_ns np) pr (PIP P) = s_np_peer_matches (np_ns np) pr (PIP (x, x)).
Proof.
  intros Hnp Hr Hpr. destruct pr as [nss pods | cidr exc | | | ]; try reflexivity. cbn [s_np_peer_matches].
  apply (subset_block_iff_member blocks (rule_block cidr exc) P x); [|exact HP|exact Hx].
  intros v Hv. apply (referenced_blocks_in _ _ Hblocks np r cidr exc v Hnp Hr Hpr Hv).
Qed.

Lemma rule_peers_uniform np r :
  In np (w_nps w) -> In r (np_in np) \/ In r (np_eg np) ->
  s_np_rule_peers (np_ns np) (nr_peers r) (PIP P) = s_np_rule_peers (np_ns np) (nr_peers r) (PIP (x, x)).
Proof.
  intros Hnp Hr. unfold s_np_rule_peers. destruct (nr_peers r) as [|p0 pt] eqn:Ep; [reflexivity|].
  assert (G : forall l, (forall pr, In pr l -> In pr (nr_peers r)) ->
              existsb (fun pr => s_np_peer_matches (np_ns np) pr (PIP P)) l = existsb (fun pr => s_np_peer_matches (np_ns np) pr (PIP (x, x))) l).
  { induction l as [|pr t IH]; intros Hl; cbn [existsb]; [reflexivity|].
    rewrite (peer_matches_uniform np r pr Hnp Hr (Hl pr (or_introl eq_refl))), IH; [reflexivity|]. intros q Hq. apply Hl. right. exact Hq. }
  apply G. intros pr Hpr. rewrite Ep. exact Hpr.
Qed.

(* the ports of a rule never depend on which IP peer the destination is *)
Lemma rule_ports_ip ports a b pr n : s_np_rule_ports ports (PIP a) pr n = s_np_rule_ports ports (PIP b) pr n.
Proof. reflexivity. Qed.

(* the NetworkPolicy layer: an IP source/destination can be replaced by any address of its block *)
Theorem np_layer_uniform_src dst pr n :
  s_np_layer w (PIP P) dst true pr n = s_np_layer w (PIP (x, x)) dst true pr n.
Proof.
  unfold s_np_layer. destruct dst as [p nsl|b]; [|reflexivity].
  set (govs := filter (fun np => s_np_governs np p Ingress) (w_nps w)).
  assert (Hg : forall np, In np govs -> In np (w_nps w)) by (intros np H; apply filter_In in H; apply H).
  destruct govs as [|g0 gt] eqn:Eg; [reflexivity|]. f_equal. rewrite <- Eg in *. clear Eg.
  induction govs as [|np t IH]; cbn [existsb]; [reflexivity|].
  rewrite IH by (intros q Hq; apply Hg; right; exact Hq). f_equal.
  unfold s_np_policy_allows.
  assert (G : forall l, (forall r, In r l -> In r (np_in np)) ->
              existsb (fun r => s_np_rule (np_ns np) r (PIP P) (PPod p nsl) pr n) l = existsb (fun r => s_np_rule (np_ns np) r (PIP (x, x)) (PPod p nsl) pr n) l).
  { induction l as [|r l' IHl]; intros Hl; cbn [existsb]; [reflexivity|]. unfold s_np_rule at 1 3.
    rewrite (rule_peers_uniform np r (Hg np (or_introl eq_refl)) (or_introl (Hl r (or_introl eq_refl)))), IHl; [reflexivity|].
    intros q Hq. apply Hl. right. exact Hq. }
  apply G. auto.
Qed.

Theorem np_layer_uniform_dst src pr n :
  s_np_layer w src (PIP P) false pr n = s_np_layer w src (PIP (x, x)) false pr n.
Proof.
  unfold s_np_layer. destruct src as [p nsl|b]; [|reflexivity].
  set (govs := filter (fun np => s_np_governs np p Egress) (w_nps w)).
  assert (Hg : forall np, In np govs -> In np (w_nps w)) by (intros np H; apply filter_In in H; apply H).
  destruct govs as [|g0 gt] eqn:Eg; [reflexivity|]. f_equal. rewrite <- Eg in *. clear Eg.
  induction govs as [|np t IH]; cbn [existsb]; [reflexivity|].
  rewrite IH by (intros q Hq; apply Hg; right; exact Hq). f_equal.
  unfold s_np_policy_allows.
  assert (G : forall l, (forall r, In r l -> In r (np_eg np)) ->
              existsb (fun r => s_np_rule (np_ns np) r (PIP P) (PIP P) pr n) l = existsb (fun r => s_np_rule (np_ns np) r (PIP (x, x)) (PIP (x, x)) pr n) l).
  { induction l as [|r l' IHl]; intros Hl; cbn [existsb]; [reflexivity|]. unfold s_np_rule at 1 3.
    rewrite (rule_peers_uniform np r (Hg np (or_introl eq_refl)) (or_intror (Hl r (or_introl eq_refl)))), IHl; [reflexivity|].
    intros q Hq. apply Hl. right. exact Hq. }
  apply G. auto.
Qed.
End Uniform.

(* ---------- admin policies never look at which IP peer it is ---------- *)
Lemma admin_peer_ip ap a : s_admin_peer_matches ap (PIP a) = false.
Proof. destruct ap; reflexivity. Qed.

Lemma admin_rule_ip_other r a dst pr n : s_admin_rule_matches r (PIP a) dst pr n = false.
Proof.
  unfold s_admin_rule_matches. replace (existsb (fun ap => s_admin_peer_matches ap (PIP a)) (ar_peers r)) with false; [reflexivity|].
  induction (ar_peers r) as [|ap t IH]; cbn [existsb]; [reflexivity|]. rewrite admin_peer_ip, <- IH. reflexivity.
Qed.

Lemma rules_verdict_ip_other rules a dst pr n : s_rules_verdict rules (PIP a) dst pr n = VNone.
Proof. induction rules as [|r t IH]; cbn [s_rules_verdict]; [reflexivity|]. rewrite admin_rule_ip_other. exact IH. Qed.

Lemma admin_selects_ip subj rules a : s_admin_selects subj rules (PIP a) = false.
Proof. unfold s_admin_selects. destruct rules; [reflexivity|apply admin_peer_ip]. Qed.

Lemma anps_verdict_ip_src anps a dst ing pr n : s_anps_verdict anps (PIP a) dst ing pr n = s_anps_verdict anps (PIP (0, 0)) dst ing pr n.
Proof.
  induction anps as [|an t IH]; cbn [s_anps_verdict]; [reflexivity|]. destruct ing.
  - rewrite !rules_verdict_ip_other. destruct (s_admin_selects (a_subject an) (a_in an) dst); exact IH.
  - rewrite !admin_selects_ip. exact IH.
Qed.
Lemma anps_verdict_ip_dst anps src a ing pr n : s_anps_verdict anps src (PIP a) ing pr n = s_anps_verdict anps src (PIP (0, 0)) ing pr n.
Proof.
  induction anps as [|an t IH]; cbn [s_anps_verdict]; [reflexivity|]. destruct ing.
  - rewrite !admin_selects_ip. exact IH.
  - rewrite !rules_verdict_ip_other. destruct (s_admin_selects (a_subject an) (a_eg an) src); exact IH.
Qed.
Lemma banp_ip_src w a dst ing pr n : s_banp_allows w (PIP a) dst ing pr n = s_banp_allows w (PIP (0, 0)) dst ing pr n.
Proof.
  unfold s_banp_allows. destruct (w_banp w) as [b|]; [|reflexivity]. destruct ing.
  - rewrite !rules_verdict_ip_other. reflexivity.
  - rewrite !admin_selects_ip. reflexivity.
Qed.
Lemma banp_ip_dst w src a ing pr n : s_banp_allows w src (PIP a) ing pr n = s_banp_allows w src (PIP (0, 0)) ing pr n.
Proof.
  unfold s_banp_allows. destruct (w_banp w) as [b|]; [|reflexivity]. destruct ing.
  - rewrite !admin_selects_ip. reflexivity.
  - rewrite !rules_verdict_ip_other. reflexivity.
Qed.

(* ---------- what the report says of an IP block holds for every address of the block ---------- *)
Theorem block_answer_holds_for_every_address w blocks P x :
  referenced_blocks (w_nps w) = Ok blocks -> In P (ip_partition blocks) -> fst P <= x <= snd P ->
  (forall dst pr n, s_allows w (PIP P) dst pr n = s_allows w (PIP (x, x)) dst pr n) /\
  (forall src pr n, s_allows w src (PIP P) pr n = s_allows w src (PIP (x, x)) pr n).
Proof.
  intros Hb HP Hx. split.
  - intros dst pr n. unfold s_allows, s_dir_allows.
    rewrite (anps_verdict_ip_src (w_anps w) P dst false), (anps_verdict_ip_src (w_anps w) (x, x) dst false).
    rewrite (anps_verdict_ip_src (w_anps w) P dst true), (anps_verdict_ip_src (w_anps w) (x, x) dst true).
    rewrite (np_layer_uniform_src w blocks Hb P HP x Hx dst pr n).
    rewrite (banp_ip_src w P dst false), (banp_ip_src w (x, x) dst false), (banp_ip_src w P dst true), (banp_ip_src w (x, x) dst true).
    reflexivity.
  - intros src pr n. unfold s_allows, s_dir_allows.
    rewrite (anps_verdict_ip_dst (w_anps w) src P false), (anps_verdict_ip_dst (w_anps w) src (x, x) false).
    rewrite (anps_verdict_ip_dst (w_anps w) src P true), (anps_verdict_ip_dst (w_anps w) src (x, x) true).
    rewrite (np_layer_uniform_dst w blocks Hb P HP x Hx src pr n).
    rewrite (banp_ip_dst w src P false), (banp_ip_dst w src (x, x) false), (banp_ip_dst w src P true), (banp_ip_dst w src (x, x) true).
    reflexivity.
Qed.
