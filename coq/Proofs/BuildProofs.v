(* BuildProofs.v — conflicting inputs are rejected whatever else the input contains and wherever
   the conflicting objects appear (C19), and the engine state does not depend on the order of
   the admin policies (C02).  No axioms. *)
From Coq Require Import List ZArith Bool String Lia Permutation.
From NP Require Import IntervalSet ConnSet World Eval Build Connlist AbstractSort.
Import ListNotations.
Open Scope list_scope.
Open Scope Z_scope.

Lemma insert_objs_app e l r :
  insert_objs e (l ++ r) = (do e' <- insert_objs e l; insert_objs e' r).
Proof.
  revert e. induction l as [|o t IH]; intros e; cbn [insert_objs app bind]; [reflexivity|].
  destruct (insert_obj e o) as [e1|]; cbn [bind]; [apply IH | reflexivity].
Qed.

Lemma preserved_objs (P : engine -> Prop) :
  (forall e o e', P e -> insert_obj e o = Ok e' -> P e') ->
  forall os e e', P e -> insert_objs e os = Ok e' -> P e'.
Proof.
  intros Hstep. induction os as [|o t IH]; intros e e' Hp H; cbn [insert_objs] in H.
  - inversion H; subst; exact Hp.
  - destruct (insert_obj e o) as [e1|] eqn:Ho; cbn [bind] in H; [|discriminate].
    eapply IH; [eapply Hstep; eassumption | exact H].
Qed.

(* o1 establishes P, every insertion preserves P, P makes o2 fail: the pair is always rejected *)
Lemma two_conflict (P : engine -> Prop) o1 o2 :
  (forall e e', insert_obj e o1 = Ok e' -> P e') ->
  (forall e o e', P e -> insert_obj e o = Ok e' -> P e') ->
  (forall e, P e -> is_ok (insert_obj e o2) = false) ->
  forall l1 l2 l3 e, is_ok (insert_objs e (l1 ++ o1 :: l2 ++ o2 :: l3)) = false.
Proof.
  intros Hest Hpres Hfail l1 l2 l3 e.
  rewrite insert_objs_app. destruct (insert_objs e l1) as [e1|]; cbn [bind]; [|reflexivity].
  cbn [insert_objs]. destruct (insert_obj e1 o1) as [e2|] eqn:H1; cbn [bind]; [|reflexivity].
  rewrite insert_objs_app. destruct (insert_objs e2 l2) as [e3|] eqn:H2; cbn [bind]; [|reflexivity].
  cbn [insert_objs].
  assert (Hp : P e3) by (eapply preserved_objs; [exact Hpres | eapply Hest; exact H1 | exact H2]).
  specialize (Hfail e3 Hp). destruct (insert_obj e3 o2); [discriminate | reflexivity].
Qed.

Lemma build_err_of_insert os : is_ok (insert_objs engine0 os) = false -> is_ok (build_world os) = false.
Proof. unfold build_world. destruct (insert_objs engine0 os); [discriminate | reflexivity]. Qed.

Ltac inv_insert H :=
  match type of H with
  | insert_obj ?e ?o = Ok ?e' =>
      destruct o as [n|np|pd|wl|a|b|]; cbn [insert_obj] in H;
      repeat match type of H with
             | (if ?c then _ else _) = Ok _ => destruct c eqn:?
             | match ?x with Some _ => _ | None => _ end = Ok _ => destruct x eqn:?
             end; try discriminate; inversion H; subst e'; clear H
  end.

(* ---- two AdminNetworkPolicies with the same name ---- *)
Theorem dup_anp_name_rejected a1 a2 l1 l2 l3 :
  a_name a1 = a_name a2 ->
  is_ok (build_world (l1 ++ OAnp a1 :: l2 ++ OAnp a2 :: l3)) = false.
Proof.
  intros Hn. apply build_err_of_insert.
  apply (two_conflict (fun e => str_mem (a_name a1) (e_anp_names e) = true)).
  - intros e e' H. cbn [insert_obj] in H. destruct (str_mem (a_name a1) (e_anp_names e)); [discriminate|].
    inversion H; subst e'. cbn [e_anp_names str_mem]. rewrite String.eqb_refl. reflexivity.
  - intros e o e' Hp H. inv_insert H; cbn [e_anp_names]; try exact Hp.
    cbn [str_mem]. rewrite Hp. apply orb_true_r.
  - intros e Hp. cbn [insert_obj]. rewrite <- Hn, Hp. reflexivity.
Qed.

(* ---- two NetworkPolicies with the same name in one namespace ---- *)
Definition np_key_in (ns nm : string) (e : engine) : Prop :=
  existsb (fun q => String.eqb (np_ns q) ns && String.eqb (np_name q) nm) (e_nps e) = true.

Theorem dup_netpol_name_rejected np1 np2 l1 l2 l3 :
  np_ns (np_default_ns np1) = np_ns (np_default_ns np2) -> np_name np1 = np_name np2 ->
  is_ok (build_world (l1 ++ ONetpol np1 :: l2 ++ ONetpol np2 :: l3)) = false.
Proof.
  intros Hns Hnm. apply build_err_of_insert.
  assert (Hname : forall np, np_name (np_default_ns np) = np_name np)
    by (intros np; unfold np_default_ns; destruct (String.eqb (np_ns np) ""); reflexivity).
  apply (two_conflict (np_key_in (np_ns (np_default_ns np1)) (np_name np1))).
  - intros e e' H. cbn [insert_obj] in H.
    match type of H with (if ?c then _ else _) = _ => destruct c end; [discriminate|].
    inversion H; subst e'. unfold np_key_in. cbn [e_nps]. rewrite existsb_app. cbn [existsb].
    rewrite Hname, !String.eqb_refl. cbn. apply orb_true_r.
  - intros e o e' Hp H. unfold np_key_in in *. inv_insert H; cbn [e_nps]; try exact Hp.
    rewrite existsb_app, Hp. reflexivity.
  - intros e Hp. unfold np_key_in in Hp. rewrite Hns, Hnm in Hp.
    cbn [insert_obj]. rewrite Hname, Hp. reflexivity.
Qed.

(* ---- more than one BaselineAdminNetworkPolicy, or one not named default ---- *)
Theorem second_banp_rejected b1 b2 l1 l2 l3 :
  is_ok (build_world (l1 ++ OBanp b1 :: l2 ++ OBanp b2 :: l3)) = false.
Proof.
  apply build_err_of_insert.
  apply (two_conflict (fun e => e_banp e <> None)).
  - intros e e' H. cbn [insert_obj] in H. destruct (e_banp e); [discriminate|].
    destruct (String.eqb (b_name b1) "default"); [|discriminate]. inversion H; subst e'. cbn. discriminate.
  - intros e o e' Hp H. inv_insert H; cbn [e_banp]; try exact Hp. discriminate.
  - intros e Hp. cbn [insert_obj]. destruct (e_banp e); [reflexivity | contradiction].
Qed.

Theorem banp_name_rejected b l1 l2 :
  String.eqb (b_name b) "default" = false ->
  is_ok (build_world (l1 ++ OBanp b :: l2)) = false.
Proof.
  intros Hn. apply build_err_of_insert. rewrite insert_objs_app.
  destruct (insert_objs engine0 l1) as [e1|]; cbn [bind]; [|reflexivity].
  cbn [insert_objs insert_obj]. destruct (e_banp e1); [reflexivity|]. rewrite Hn. reflexivity.
Qed.

(* ---- priorities ---- *)
Fixpoint anps_of (os : list obj) : list anp :=
  match os with
  | [] => []
  | OAnp a :: t => a :: anps_of t
  | _ :: t => anps_of t
  end.

Lemma anps_of_app l r : anps_of (l ++ r) = anps_of l ++ anps_of r.
Proof. induction l as [|o t IH]; cbn; [reflexivity|]. destruct o; cbn; rewrite ?IH; reflexivity. Qed.

Lemma insert_objs_anps os : forall e e', insert_objs e os = Ok e' -> e_anps e' = e_anps e ++ anps_of os.
Proof.
  induction os as [|o t IH]; intros e e' H; cbn [insert_objs] in H.
  - inversion H; subst. cbn. rewrite app_nil_r. reflexivity.
  - destruct (insert_obj e o) as [e1|] eqn:Ho; cbn [bind] in H; [|discriminate].
    rewrite (IH _ _ H). inv_insert Ho; cbn [e_anps anps_of]; try reflexivity.
    rewrite <- app_assoc. reflexivity.
Qed.

Lemma sort_anps_ok_iff l :
  is_ok (sort_anps l) = negb (has_dup_prio l) && forallb (fun a => valid_priority (a_prio a)) l.
Proof.
  destruct l as [|a [|b t]].
  - reflexivity.
  - cbn. destruct (valid_priority (a_prio a)); reflexivity.
  - unfold sort_anps. destruct (has_dup_prio (a :: b :: t)); [reflexivity|].
    destruct (forallb (fun a0 => valid_priority (a_prio a0)) (a :: b :: t)); reflexivity.
Qed.

Lemma has_dup_prio_in l1 a l2 b l3 :
  a_prio a = a_prio b -> has_dup_prio (l1 ++ a :: l2 ++ b :: l3) = true.
Proof.
  intros Heq. induction l1 as [|x t IH]; cbn [app has_dup_prio].
  - apply orb_true_iff. left. apply existsb_exists. exists b. split; [apply in_or_app; right; left; reflexivity | lia].
  - rewrite IH. apply orb_true_r.
Qed.

Theorem same_priority_rejected a1 a2 l1 l2 l3 :
  a_prio a1 = a_prio a2 ->
  is_ok (build_world (l1 ++ OAnp a1 :: l2 ++ OAnp a2 :: l3)) = false.
Proof.
  intros Hp. unfold build_world.
  destruct (insert_objs engine0 _) as [e|] eqn:He; cbn [bind]; [|reflexivity].
  apply insert_objs_anps in He. cbn [engine0 e_anps app] in He.
  assert (Hs : is_ok (sort_anps (e_anps e)) = false).
  { rewrite sort_anps_ok_iff, He. rewrite anps_of_app. cbn [anps_of]. rewrite anps_of_app. cbn [anps_of].
    rewrite (has_dup_prio_in _ a1 _ a2 _ Hp). reflexivity. }
  destruct (sort_anps (e_anps e)); [discriminate | reflexivity].
Qed.

Theorem priority_out_of_range_rejected a l1 l2 :
  valid_priority (a_prio a) = false ->
  is_ok (build_world (l1 ++ OAnp a :: l2)) = false.
Proof.
  intros Hv. unfold build_world.
  destruct (insert_objs engine0 _) as [e|] eqn:He; cbn [bind]; [|reflexivity].
  apply insert_objs_anps in He. cbn [engine0 e_anps app] in He.
  assert (Hs : is_ok (sort_anps (e_anps e)) = false).
  { rewrite sort_anps_ok_iff, He. rewrite anps_of_app. cbn [anps_of].
    rewrite forallb_app. cbn [forallb]. rewrite Hv. rewrite andb_false_r, andb_false_r. reflexivity. }
  destruct (sort_anps (e_anps e)); [discriminate | reflexivity].
Qed.

(* ---- pods of one owner with different labels: rejected when the report is computed ---- *)
Theorem inconsistent_owner_rejected w focus hi :
  w_pods w <> [] -> owners_consistent (w_pods w) = false -> is_ok (list_world w focus hi) = false.
Proof.
  intros Hne Hc. unfold list_world. destruct (w_pods w); [contradiction|]. rewrite Hc. reflexivity.
Qed.

Lemma owners_consistent_false pods :
  owners_consistent pods = false ->
  exists p q, In p pods /\ In q pods /\ p_owner_name p <> ""%string /\
              p_ns q = p_ns p /\ p_owner_name q = p_owner_name p /\ labels_eq (p_labels p) (p_labels q) = false.
Proof.
  induction pods as [|p t IH]; cbn [owners_consistent]; [discriminate|].
  intros H. apply andb_false_iff in H. destruct H as [H | H].
  - apply orb_false_iff in H. destruct H as [Hown Hall].
    rewrite <- not_true_iff_false, forallb_forall in Hall.
    assert (Hex : exists q, In q t /\ (negb (String.eqb (p_ns q) (p_ns p) && String.eqb (p_owner_name q) (p_owner_name p))
                                         || labels_eq (p_labels p) (p_labels q)) = false).
    { clear - Hall. induction t as [|q t IH].
      - exfalso. apply Hall. intros ? [].
      - destruct (negb (String.eqb (p_ns q) (p_ns p) && String.eqb (p_owner_name q) (p_owner_name p))
                  || labels_eq (p_labels p) (p_labels q)) eqn:Hq.
        + destruct IH as (q' & Hin & Hq').
          { intros Hf. apply Hall. intros x [<- | Hx]; [exact Hq | apply Hf; exact Hx]. }
          exists q'. split; [right; exact Hin | exact Hq'].
        + exists q. split; [left; reflexivity | exact Hq]. }
    destruct Hex as (q & Hin & Hq). apply orb_false_iff in Hq. destruct Hq as [Hk Hl].
    apply negb_false_iff, andb_true_iff in Hk. destruct Hk as [Hns Hon].
    apply String.eqb_eq in Hns, Hon.
    exists p, q. repeat split; auto; try (right; exact Hin); try (left; reflexivity).
    intros He. rewrite He in Hown. cbn in Hown. discriminate.
  - destruct (IH H) as (a & b & Ha & Hb & Hrest). exists a, b. repeat split; try (right; assumption); apply Hrest.
Qed.

(* ---- the converse: no listed conflict, no rejection by the sort ---- *)
Theorem no_false_priority_conflict l :
  has_dup_prio l = false -> forallb (fun a => valid_priority (a_prio a)) l = true ->
  sort_anps l = Ok (sort_by_prio l) \/ exists a, l = [a].
Proof.
  intros Hd Hv. destruct l as [|a [|b t]]; [left; reflexivity | right; eauto|].
  left. unfold sort_anps. rewrite Hd, Hv. reflexivity.
Qed.

(* ---- C02: the order of the input does not matter for the admin policies ---- *)
Lemma insert_objs_nonanp_state os : forall e e',
  insert_objs e os = Ok e' -> True.
Proof. auto. Qed.
