#!/bin/bash
# run_seeded.sh [ID...] : for every seeded mutant (default all): apply it to /repo, run the quick check of its property, revert;
# record the outcome in seeded/<id>/meta.json ("verified").  /repo must be clean.  Sequential (the checks rebuild from /repo).
export GOFLAGS=-mod=mod GOPROXY=off GOSUMDB=off GOTOOLCHAIN=local VERIF_NOSHRINK=1
cd /verif
ids="$@"; [ -z "$ids" ] && ids=$(ls seeded)
head=$(git -C /repo rev-parse --short HEAD)
for id in $ids; do
  prop=${id%%-*}
  git -C /repo diff --quiet || { echo "/repo not clean"; exit 2; }
  if ! git -C /repo apply --check /verif/seeded/$id/patch.diff 2>/dev/null; then
    echo "$id DOES-NOT-APPLY"; python3 tools/seeded_meta.py $id $head "" "" ; continue
  fi
  git -C /repo apply /verif/seeded/$id/patch.diff
  out=$(python3 checks/check.py $prop quick 2>&1); rc=$?
  git -C /repo checkout -- .
  nv=$(echo "$out" | grep -c '^VIOLATION')
  first=$(echo "$out" | grep '^VIOLATION' | head -1 | sed 's/.*replay=//')
  echo "$id check=$prop rc=$rc violations=$nv $first"
  python3 tools/seeded_meta.py $id $head $rc "$first"
  rm -rf replays/$prop
done
