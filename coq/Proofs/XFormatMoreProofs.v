(* XFormatMoreProofs.v — the md, csv and json outputs of `list --exposure` are functions of the same multisets as the txt output. *)
From Coq Require Import List ZArith Bool String Ascii Lia Permutation.
From NP Require Import IntervalSet ConnSet World Build Connlist Diff Format XFormat XFormatMore SortGeneric FormatProofs DotProofs XFormatProofs.
Import ListNotations.
Open Scope string_scope.

Lemma eg_rows_equiv es es' xps mid xps' :
  Permutation es es' -> Permutation xps mid -> Forall2 xp_equiv mid xps' -> eg_rows es xps = eg_rows es' xps'.
Proof. intros Pe Pm Hq. exact (rows_equiv es es' false xps mid xps' Pe Pm Hq). Qed.
Lemma ing_rows_equiv es es' xps mid xps' :
  Permutation es es' -> Permutation xps mid -> Forall2 xp_equiv mid xps' -> ing_rows es xps = ing_rows es' xps'.
Proof. intros Pe Pm Hq. exact (rows_equiv es es' true xps mid xps' Pe Pm Hq). Qed.
Lemma list_rows_equiv es es' : Permutation es es' -> rowsort (map row_of es) = rowsort (map row_of es').
Proof. intros Pe. apply rowsort_perm_invariant. apply Permutation_map. exact Pe. Qed.

Theorem exposure_md_order_independent es es' xps mid xps' :
  Permutation es es' -> Permutation xps mid -> Forall2 xp_equiv mid xps' -> list_exposure_md es xps = list_exposure_md es' xps'.
Proof.
  intros Pe Pm Hq. unfold list_exposure_md.
  rewrite (eg_rows_equiv _ _ _ _ _ Pe Pm Hq), (ing_rows_equiv _ _ _ _ _ Pe Pm Hq), (list_rows_equiv _ _ Pe). reflexivity.
Qed.

Theorem exposure_csv_order_independent es es' xps mid xps' :
  Permutation es es' -> Permutation xps mid -> Forall2 xp_equiv mid xps' -> list_exposure_csv es xps = list_exposure_csv es' xps'.
Proof.
  intros Pe Pm Hq. unfold list_exposure_csv.
  rewrite (eg_rows_equiv _ _ _ _ _ Pe Pm Hq), (ing_rows_equiv _ _ _ _ _ Pe Pm Hq), (list_rows_equiv _ _ Pe). reflexivity.
Qed.

Theorem exposure_json_order_independent es es' xps mid xps' :
  Permutation es es' -> Permutation xps mid -> Forall2 xp_equiv mid xps' -> list_exposure_json es xps = list_exposure_json es' xps'.
Proof.
  intros Pe Pm Hq. unfold list_exposure_json.
  rewrite (eg_rows_equiv _ _ _ _ _ Pe Pm Hq), (ing_rows_equiv _ _ _ _ _ Pe Pm Hq), (list_rows_equiv _ _ Pe). reflexivity.
Qed.

(* the four formats print the same rows: the sections of md / csv / json are built from exactly the rows of the txt sections *)
Theorem exposure_formats_share_rows es xps :
  exposure_txt es xps =
    (let n := max_peer_len xps in
     let eg := map (xline "=>" n) (eg_rows es xps) in
     let ing := map (xline "<=" n) (ing_rows es xps) in
     "Exposure Analysis Result:" ++ nl ++ subsection eg ("Egress Exposure:" ++ nl)
     ++ subsection ing ((match eg with [] => "" | _ => nl end) ++ "Ingress Exposure:" ++ nl)
     ++ subsection (strsort (flat_map unprotected_lines xps)) (nl ++ "Workloads not protected by network policies:" ++ nl)).
Proof. reflexivity. Qed.
