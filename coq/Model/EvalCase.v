(* EvalCase.v — correspondence cases for `eval`: resolving the query strings the way
   PolicyEngine.getPeer does and answering with Model/EvalPoint.v, on an engine state built
   either like NewPolicyEngineWithObjects (Build.build_world) or like the CLI's InsertObject loop.
   Executable definitions only. *)
From Coq Require Import List ZArith Bool String.
From NP Require Import IntervalSet ConnSet World Eval EvalPoint Build.
Import ListNotations.
Open Scope string_scope.
Open Scope list_scope.
Open Scope Z_scope.

Inductive qpeer := QPod (key : string) | QIP (a : Z).

(* getPeer: an unknown pod is an error; a pod whose namespace object is missing gets the
   synthesised namespace (automatic name label only) *)
Definition resolve_qpeer (w : world) (q : qpeer) : outcome peer :=
  match q with
  | QIP a => Ok (PIP (a, a))
  | QPod k =>
      match find (fun p => String.eqb (pod_key p) k) (w_pods w) with
      | None => Err ErrOther
      | Some p =>
          match find_ns (p_ns p) (w_nss w) with
          | Some n => Ok (PPod p (ns_labels n))
          | None => Ok (PPod p [(K8sNsNameLabelKey, p_ns p)])
          end
      end
  end.

Record query := mkQ { q_src : qpeer; q_dst : qpeer; q_proto : proto; q_port : Z }.

Definition answer_query (w : world) (q : query) : outcome bool :=
  do s <- resolve_qpeer w (q_src q);
  do d <- resolve_qpeer w (q_dst q);
  check_allowed w s d (q_proto q) (q_port q).

(* the engine state the CLI's eval builds: Pods, Namespaces and policies through InsertObject only;
   no conflict detection by sorting, admin policies kept ordered by priority *)
Definition cli_inserts (o : obj) : bool :=
  match o with OWorkload _ | OOther => false | _ => true end.

Definition build_world_cli (os : list obj) : outcome world :=
  do e <- insert_objs engine0 (filter cli_inserts os);
  Ok (mkWorld (e_nss e) (e_pods e) (e_nps e) (sort_by_prio (e_anps e)) (e_banp e)).

Inductive obs_answer := OTrue | OFalse | OErr | OPanic | OSkip.   (* OSkip: not compared (see checks/c03.py) *)

Record eval_case := mkEC { ec_id : nat; ec_objs : list obj; ec_cli_mode : bool;
                           ec_build_ok : bool;                 (* did the implementation build its engine *)
                           ec_queries : list (query * obs_answer) }.

Definition answer_matches (m : outcome bool) (o : obs_answer) : bool :=
  match m, o with
  | Ok true, OTrue | Ok false, OFalse | Err _, OErr => true
  | _, OSkip => true
  | _, _ => false
  end.

Fixpoint first_bad (w : world) (qs : list (query * obs_answer)) (k : nat) : option nat :=
  match qs with
  | [] => None
  | (q, o) :: t => if answer_matches (answer_query w q) o then first_bad w t (S k) else Some k
  end.

(* (case id, index of the first disagreeing query); index 999 = engine construction disagrees *)
Definition eval_mismatches (cs : list eval_case) : list (nat * nat) :=
  flat_map (fun c =>
    match (if ec_cli_mode c then build_world_cli (ec_objs c) else build_world (ec_objs c)) with
    | Err _ => if ec_build_ok c then [(ec_id c, 999%nat)] else []
    | Ok w => if ec_build_ok c
              then match first_bad w (ec_queries c) 0 with Some k => [(ec_id c, k)] | None => [] end
              else [(ec_id c, 999%nat)]
    end) cs.
