# C05 — the connectivity report is a well-formed, canonical relation.
# The verified checker wf_report_b (Properties/C05.v) is applied to every report the implementation
# produces for worlds with and without ANP/BANP, focus on/off; the peers list is also compared with
# the model's IP partition.
import re
from . import c01, c10
from .lib import core, gen, listcorr
from .lib.core import cnat


def ingress_phase(run, h, n):
    """reports of worlds WITH Services / Ingresses / Routes (the {ingress-controller} lines are entries too): the verified checker on each"""
    cases = [(i, c10.gen_case(run.rng)[0]) for i in range(n)]
    cmds, info = [], {}
    for cid, W in cases:
        ms = [m for m, _ in gen.docs(W)] + [c10.manifest(o) for o in W['ingress_objs']]
        d = h.dir_for('i%d' % cid)
        gen.write_dir(d, ms)
        cmds.append({'id': str(cid), 'cmd': 'list', 'dir': d})
        info[cid] = (W, ms)
    outs = h.run(cmds)
    rows = []
    for (cid, W), o in zip(cases, outs):
        run.count(1)
        if o['outcome'] == 'panic':
            run.report(None, 'ing-panic-%d' % cid, {'kind': 'ingress-wf', 'world': W, 'manifests': info[cid][1]}, 'list panicked')
        elif o['outcome'] == 'ok':
            if any(e['src'] == '{ingress-controller}' for e in o['conns']):
                run.nontrivial(['ingress', W])
            rows.append('(%s, %s)' % (cnat(cid), gen.c_obs_list(o)))
            info[cid] = (W, info[cid][1], o)
    text = ['From Coq Require Import List ZArith String.', 'From NP Require Import IntervalSet ConnSet World Build Connlist.',
            'Import ListNotations.', 'Open Scope Z_scope.', 'Definition wcases : list (nat * obs_list) := [', ';\n'.join(rows), '].',
            'Definition WM := Eval vm_compute in flat_map (fun c => match snd c with ObsOk es ps _ => '
            'if wf_report_b es ps [RW "{ingress-controller}"%string] then [] else [(fst c, 6%nat)] | _ => [] end) wcases.', 'Print WM.']
    rc, out, err = core.run_coq_text('\n'.join(text))
    if rc != 0:
        raise RuntimeError('coqc on ingress wf cases failed: ' + err[-1500:])
    wm = core.parse_pairs(out, 'WM')
    if wm is None:
        raise RuntimeError('no WM in coqc output')
    for cid, _ in wm[:3]:
        W, ms, o = info[cid]
        run.report(None, 'ing-wf-%d' % cid, {'kind': 'ingress-wf', 'world': W, 'manifests': ms, 'report': o['conns']},
                   'the report of an input with Services/Ingresses/Routes is not a well-formed canonical relation (duplicate pair, self or IP-IP pair, empty or non-canonical connection, or IP peers not tiling the address space)')


def nontrivial(W, obs):
    return obs['outcome'] == 'ok' and len(obs['peers']) >= 3 and len(obs['conns']) >= 2


def main(tier):
    run = core.Run('C05', tier)
    run.cov['rule'] = ('random worlds (NetworkPolicy-only and with ANP/BANP; nested/touching/identical CIDRs with excepts; all port-set shapes; with and without --focusworkload) '
                       'analysed by the real `list`; the verified checker wf_report_b runs on every report (one entry per pair, no self/IP-IP pair, no empty connection, '
                       'canonical connections, IP peers tile 0.0.0.0-255.255.255.255) and the peer list / IP partition is compared with the model\'s; '
                       'non-trivial = at least 3 peers and 2 entries; distinct by scenario hash')
    run.stage_proofs()
    b = core.build_go(['verifapi'], run.log)
    if not b['verifapi'][0]:
        run.proof_ok = False
        run.proof_notes.append('harness verifapi does not build against this tree: ' + b['verifapi'][1][-600:])
        return run.finish()
    n = 240 if tier == 'quick' else 6000
    h = listcorr.Harness()
    try:
        shard, k = 120, 0
        while k < n and len(run.violations) < 3:
            worlds = [(k + i, gen.gen_world(run.rng, anp=(i % 3 == 0), big=(tier != 'quick'))) for i in range(min(shard, n - k))]
            if k == 0:
                run.sample({'world': worlds[0][1]})

            def focus_of(cid, W, r=run.rng):
                if cid % 4 == 0 and W['workloads']:
                    w = r.choice(W['workloads'])
                    return r.choice([w['name'], w['ns'] + '/' + w['name']])
                return ''
            c01.run_worlds(run, h, worlds, prop_codes=(3, 5), wf_prop=True, nontriv=nontrivial, focus_of=focus_of)
            k += shard
        if len(run.violations) < 3:
            ingress_phase(run, h, 200 if tier == "quick" else 3000)
    finally:
        h.close()
    return run.finish()


def replay(payload):
    if payload.get('kind') != 'ingress-wf':
        return c01.replay(payload)
    run = core.Run('C05', 'quick')
    run.stage_proofs()
    core.build_go(['verifapi'], run.log)
    h = listcorr.Harness()
    try:
        d = h.dir_for('r')
        gen.write_dir(d, payload['manifests'])
        o = h.run([{'id': 'r', 'cmd': 'list', 'dir': d}])[0]
        run.count(1)
        keys = [(e['src'], e['dst']) for e in o.get('conns') or []]
        if o['outcome'] == 'ok' and (len(set(keys)) != len(keys) or any(a == b for a, b in keys) or
                                     any(not e['conn']['all'] and not any(e['conn']['pp'].values()) for e in o['conns'])):
            run.report(None, 'replay', payload, 'report is not a well-formed relation')
    finally:
        h.close()
    return run.finish()
