(* ConnInj.v — the printed form of a canonical connection set determines the set
   (common.ConnectionSet.String on the sets the analysis reports). *)
From Coq Require Import List ZArith Bool String Ascii Lia.
From NP Require Import IntervalSet ConnSet IntervalSetProofs ConnSetProofs StrInj.
Import ListNotations.
Open Scope string_scope.

(* the alphabet of a port-range token *)
Definition is_tok (c : ascii) : bool := is_digit c || Ascii.eqb c "-".
Lemma digit_tok c : is_digit c = true -> is_tok c = true.
Proof. intros H. unfold is_tok. rewrite H. reflexivity. Qed.
Lemma tok_comma : is_tok "," = false. Proof. reflexivity. Qed.
Lemma digit_dash : is_digit "-" = false. Proof. reflexivity. Qed.

Definition ivl_ok (v : ivl) : Prop := (0 <= fst v /\ fst v <= snd v)%Z.

Lemma ivl_str_tok v : ivl_ok v -> all_chars is_tok (ivl_str v) = true.
Proof.
  intros [H1 H2]. unfold ivl_str. destruct (fst v =? snd v)%Z.
  - apply (all_chars_weaken is_digit); [exact digit_tok|apply Z_str_digits; exact H1].
  - rewrite !all_chars_app. cbn.
    rewrite (all_chars_weaken is_digit is_tok _ digit_tok (Z_str_digits _ H1)).
    rewrite (all_chars_weaken is_digit is_tok _ digit_tok (Z_str_digits (snd v) ltac:(lia))). reflexivity.
Qed.

Lemma ivl_str_inj v w : ivl_ok v -> ivl_ok w -> ivl_str v = ivl_str w -> v = w.
Proof.
  intros [V1 V2] [W1 W2]. destruct v as [a b], w as [c d]. cbn [fst snd] in *. unfold ivl_str. cbn [fst snd].
  destruct (Z.eqb_spec a b) as [E1|E1], (Z.eqb_spec c d) as [E2|E2]; intros H.
  - subst. apply Z_str_inj in H; [subst; reflexivity|lia|lia].
  - exfalso. cbn [append] in H. exact (split_end is_digit "-" _ _ _ digit_dash (Z_str_digits a V1) H).
  - exfalso. cbn [append] in H. symmetry in H. exact (split_end is_digit "-" _ _ _ digit_dash (Z_str_digits c W1) H).
  - cbn [append] in H.
    destruct (split_unique is_digit "-" _ _ _ _ digit_dash (Z_str_digits a V1) (Z_str_digits c W1) H) as [H1 H2].
    apply Z_str_inj in H1; [|lia|lia]. apply Z_str_inj in H2; [|lia|lia]. subst. reflexivity.
Qed.

Lemma ivl_str_nonempty v : ivl_ok v -> ivl_str v <> "".
Proof.
  intros [H1 H2]. unfold ivl_str. destruct (fst v =? snd v)%Z.
  - apply Z_str_nonempty. exact H1.
  - intros E. pose proof (Z_str_nonempty (fst v) H1) as N. destruct (Z_str (fst v)); [congruence|discriminate].
Qed.

(* first character *)
Definition lead (s : string) : option ascii := match s with EmptyString => None | String c _ => Some c end.
Definition digit_led (s : string) : Prop := exists c, lead s = Some c /\ is_digit c = true.

Lemma all_chars_lead f s c : all_chars f s = true -> lead s = Some c -> f c = true.
Proof. destruct s as [|x s]; cbn; [discriminate|]. intros H [= <-]. apply andb_true_iff in H. tauto. Qed.

Lemma Z_str_led z : (0 <= z)%Z -> digit_led (Z_str z).
Proof.
  intros H. pose proof (Z_str_nonempty z H) as N. pose proof (Z_str_digits z H) as D.
  destruct (Z_str z) as [|c s]; [congruence|]. exists c. split; [reflexivity|]. cbn in D. apply andb_true_iff in D. tauto.
Qed.

Lemma ivl_str_led v : ivl_ok v -> digit_led (ivl_str v).
Proof.
  intros [H1 H2]. unfold ivl_str. destruct (fst v =? snd v)%Z; [apply Z_str_led; exact H1|].
  destruct (Z_str_led (fst v) H1) as (c & L & D). exists c. split; [|exact D].
  destruct (Z_str (fst v)); [discriminate|exact L].
Qed.

Lemma map_inj_on {A B} (f : A -> B) (P : A -> Prop) (l l' : list A) :
  (forall x y, P x -> P y -> f x = f y -> x = y) -> Forall P l -> Forall P l' -> map f l = map f l' -> l = l'.
Proof.
  intros Hf. revert l'. induction l as [|x l IH]; intros [|y l'] Hl Hl' H; cbn in H; try discriminate; [reflexivity|].
  inversion Hl as [|? ? Px Pl]; subst. inversion Hl' as [|? ? Py Pl']; subst. injection H as E1 E2. f_equal; [apply Hf; assumption|apply IH; assumption].
Qed.

(* intervals of a well-formed port set are printable *)
Lemma lb_canon_ok b s : (0 <= b)%Z -> lb_canon b s -> Forall ivl_ok s.
Proof.
  revert b. induction s as [|[l h] s IH]; intros b Hb H; [constructor|]. cbn in H. destruct H as (H1 & H2 & H3).
  constructor; [split; cbn; lia|]. apply (IH (h + 2)%Z); [lia|exact H3].
Qed.

Lemma ps_wf_ok ps : ps_wf ps -> Forall ivl_ok (ps_ports ps).
Proof.
  intros [Hc Hw]. destruct (ps_ports ps) as [|[l h] s] eqn:E; [constructor|].
  cbn in Hc. cbn in Hw. apply andb_true_iff in Hw. destruct Hw as [Hw _]. apply andb_true_iff in Hw. destruct Hw as [Hw _].
  apply (lb_canon_ok l); [unfold minPort in Hw; lia|exact Hc].
Qed.

(* ---- tokens of a connection set ---- *)
Definition grp (c : connset) (p : proto) : list string :=
  match cs_get c p with
  | None => []
  | Some ps => match map ivl_str (ps_ports ps) with
               | [] => []
               | t :: ts => (proto_str p ++ " " ++ t) :: ts
               end
  end.
Definition toks (c : connset) : list string := (grp c SCTP ++ grp c TCP ++ grp c UDP)%list.

Definition letter_led (x : ascii) (s : string) : Prop := lead s = Some x.

(* shape of a group: empty, or a head led by the protocol's first letter followed by digit-led tokens *)
Definition grp_shape (x : ascii) (g : list string) : Prop :=
  g = [] \/ exists h t, g = h :: t /\ letter_led x h /\ Forall digit_led t.
Definition not_led_by (bad : ascii -> bool) (r : list string) : Prop :=
  match r with [] => True | h :: _ => exists c, lead h = Some c /\ bad c = false end.

Lemma tail_split (t t' r r' : list string) :
  Forall digit_led t -> Forall digit_led t' -> not_led_by is_digit r -> not_led_by is_digit r' ->
  (t ++ r = t' ++ r')%list -> t = t' /\ r = r'.
Proof.
  revert t'. induction t as [|x t IH]; intros [|x' t'] Ht Ht' Hr Hr' H; cbn in H.
  - split; [reflexivity|exact H].
  - exfalso. subst r. inversion Ht' as [|? ? (c & L & D) _]; subst. cbn in Hr. destruct Hr as (c' & L' & D'). congruence.
  - exfalso. subst r'. inversion Ht as [|? ? (c & L & D) _]; subst. cbn in Hr'. destruct Hr' as (c' & L' & D'). congruence.
  - injection H as H1 H2. subst x'. inversion Ht; subst. inversion Ht'; subst.
    destruct (IH t' ltac:(assumption) ltac:(assumption) Hr Hr' H2) as [E1 E2]. subst. split; reflexivity.
Qed.

Lemma grp_split (x : ascii) (g g' r r' : list string) :
  is_digit x = false ->
  grp_shape x g -> grp_shape x g' ->
  not_led_by (fun c => is_digit c || Ascii.eqb c x) r -> not_led_by (fun c => is_digit c || Ascii.eqb c x) r' ->
  (g ++ r = g' ++ r')%list -> g = g' /\ r = r'.
Proof.
  intros Hx Hg Hg' Hr Hr' H.
  assert (W : forall q, not_led_by (fun c => is_digit c || Ascii.eqb c x) q -> not_led_by is_digit q).
  { intros [|h q]; cbn; [tauto|]. intros (c & L & B). exists c. split; [exact L|]. apply orb_false_iff in B. tauto. }
  assert (NX : forall h q, letter_led x h -> not_led_by (fun c => is_digit c || Ascii.eqb c x) (h :: q) -> False).
  { intros h q L (c & L' & B). unfold letter_led in L. rewrite L in L'. injection L' as <-.
    apply orb_false_iff in B. destruct B as [_ B]. rewrite Ascii.eqb_refl in B. discriminate. }
  destruct Hg as [->|(h & t & -> & L & T)], Hg' as [->|(h' & t' & -> & L' & T')]; cbn [app] in H.
  - split; [reflexivity|exact H].
  - exfalso. subst r. exact (NX _ _ L' Hr).
  - exfalso. subst r'. exact (NX _ _ L Hr').
  - injection H as H1 H2. subst h'. destruct (tail_split t t' r r' T T' (W _ Hr) (W _ Hr') H2) as [E1 E2].
    subst. split; reflexivity.
Qed.

Definition first_letter (p : proto) : ascii := match p with TCP => "T" | UDP => "U" | SCTP => "S" end%char.

Lemma grp_has_shape c p : cs_wf c -> grp_shape (first_letter p) (grp c p).
Proof.
  intros Hw. unfold grp. destruct (cs_get c p) as [ps|] eqn:E; [|left; reflexivity].
  pose proof (ps_wf_ok ps (Hw p ps E)) as Ok. destruct (ps_ports ps) as [|v s]; [left; reflexivity|].
  right. cbn [map]. eexists. eexists. split; [reflexivity|]. split.
  - destruct p; reflexivity.
  - inversion Ok; subst. apply Forall_forall. intros t Ht. apply in_map_iff in Ht. destruct Ht as (w & <- & Hw').
    apply ivl_str_led. rewrite Forall_forall in H2. apply H2. exact Hw'.
Qed.

Lemma grp_led c p : cs_wf c -> forall bad, bad (first_letter p) = false -> not_led_by bad (grp c p) .
Proof.
  intros Hw bad Hb. destruct (grp_has_shape c p Hw) as [->|(h & t & -> & L & _)]; cbn; [tauto|].
  exists (first_letter p). split; [exact L|exact Hb].
Qed.

Lemma not_led_app bad a b : not_led_by bad a -> not_led_by bad b -> not_led_by bad (a ++ b).
Proof. destruct a; cbn; tauto. Qed.

Lemma toks_inj_groups c o : cs_wf c -> cs_wf o -> toks c = toks o -> forall p, grp c p = grp o p.
Proof.
  intros Hc Ho H. unfold toks in H.
  assert (R1 : forall q, cs_wf q -> not_led_by (fun ch => is_digit ch || Ascii.eqb ch "S") (grp q TCP ++ grp q UDP)).
  { intros q Hq. apply not_led_app; apply grp_led; trivial. }
  assert (R2 : forall q, cs_wf q -> not_led_by (fun ch => is_digit ch || Ascii.eqb ch "T") (grp q UDP)).
  { intros q Hq. apply grp_led; trivial. }
  destruct (grp_split "S" _ _ _ _ eq_refl (grp_has_shape c SCTP Hc) (grp_has_shape o SCTP Ho) (R1 c Hc) (R1 o Ho) H) as [ES H2].
  destruct (grp_split "T" _ _ _ _ eq_refl (grp_has_shape c TCP Hc) (grp_has_shape o TCP Ho) (R2 c Hc) (R2 o Ho) H2) as [ET EU].
  intros [| |]; assumption.
Qed.

Lemma grp_inj c o p :
  cs_ninv c -> cs_ninv o -> grp c p = grp o p -> cs_get c p = cs_get o p.
Proof.
  intros (Wc & Nc & _ & Ec & _) (Wo & No & _ & Eo & _). unfold grp.
  destruct (cs_get c p) as [ps|] eqn:E1, (cs_get o p) as [qs|] eqn:E2; [| | |reflexivity].
  - pose proof (ps_wf_ok _ (Wc p ps E1)) as Ok1. pose proof (ps_wf_ok _ (Wo p qs E2)) as Ok2.
    destruct (map ivl_str (ps_ports ps)) as [|t ts] eqn:M1.
    { exfalso. apply (Ec p ps E1). destruct (ps_ports ps); [reflexivity|discriminate]. }
    destruct (map ivl_str (ps_ports qs)) as [|u us] eqn:M2.
    { exfalso. apply (Eo p qs E2). destruct (ps_ports qs); [reflexivity|discriminate]. }
    intros H. injection H as H1 H2. apply append_inj_l in H1. cbn [append] in H1. injection H1 as H1. subst u us.
    rewrite <- M2 in M1. apply (map_inj_on ivl_str ivl_ok) in M1; [|exact ivl_str_inj|exact Ok1|exact Ok2].
    destruct (Nc p ps E1) as [A1 A2], (No p qs E2) as [B1 B2]. destruct ps, qs. cbn in *. subst. reflexivity.
  - intros H. exfalso. destruct (map ivl_str (ps_ports ps)) eqn:M; [|discriminate].
    apply (Ec p ps E1). destruct (ps_ports ps); [reflexivity|discriminate].
  - intros H. exfalso. destruct (map ivl_str (ps_ports qs)) eqn:M; [|discriminate].
    apply (Eo p qs E2). destruct (ps_ports qs); [reflexivity|discriminate].
Qed.

(* ---- cs_string as the join of the tokens ---- *)
Definition comma : string := sep1 ",".
Definition not_comma (ch : ascii) : bool := negb (Ascii.eqb ch ",").

Lemma tok_not_comma ch : is_tok ch = true -> not_comma ch = true.
Proof.
  unfold not_comma. destruct (Ascii.eqb_spec ch ","); [subst; cbn; discriminate|reflexivity].
Qed.

Lemma join_prefix sep x t ts : x ++ join sep (t :: ts) = join sep ((x ++ t) :: ts).
Proof. destruct ts as [|u ts]; [reflexivity|]. rewrite !join_cons, append_assoc. reflexivity. Qed.

Definition optl (g : list string) : list string := match g with [] => [] | _ => [join comma g] end.

Lemma join_optl_cons a R :
  a <> [] -> R <> [] -> join comma (join comma a :: R) = join comma a ++ comma ++ join comma R.
Proof. intros _ HR. destruct R; [congruence|reflexivity]. Qed.

Lemma join_optl2 a b : join comma (optl a ++ optl b) = join comma (a ++ b).
Proof.
  destruct a as [|a1 a]; [cbn [optl app]; destruct b; reflexivity|].
  destruct b as [|b1 b]; [cbn [optl]; rewrite !app_nil_r; reflexivity|].
  cbn [optl]. rewrite (join_app_ne comma (a1 :: a) (b1 :: b)) by discriminate. reflexivity.
Qed.

Lemma join_optl3 a b c : join comma (optl a ++ optl b ++ optl c) = join comma (a ++ b ++ c).
Proof.
  destruct a as [|a1 a]; [cbn [optl app]; apply join_optl2|].
  destruct (b ++ c)%list as [|x bc] eqn:E.
  - apply app_eq_nil in E. destruct E as [-> ->]. cbn [optl]. rewrite !app_nil_r. reflexivity.
  - assert (N : (optl b ++ optl c)%list <> []).
    { destruct b; [destruct c; [discriminate|cbn; discriminate]|cbn; discriminate]. }
    rewrite (join_app_ne comma (a1 :: a) (x :: bc)) by discriminate. rewrite <- E. rewrite <- (join_optl2 b c).
    cbn [optl]. change ([join comma (a1 :: a)] ++ optl b ++ optl c)%list with (join comma (a1 :: a) :: (optl b ++ optl c))%list.
    apply join_optl_cons; [discriminate|exact N].
Qed.

Definition piece (c : connset) (p : proto) : list string :=
  match cs_get c p with Some ps => [proto_str p ++ " " ++ ps_string ps] | None => [] end.

Lemma piece_is c p : cs_ninv c -> piece c p = optl (grp c p).
Proof.
  intros (Wc & Nc & _ & Ec & _). unfold piece, grp. destruct (cs_get c p) as [ps|] eqn:E; [|reflexivity].
  destruct (Nc p ps E) as [N1 N2]. unfold ps_string. rewrite N1. unfold iset_str.
  pose proof (Ec p ps E) as Ne. destruct (ps_ports ps) as [|v s]; [congruence|]. cbn [map optl].
  f_equal. rewrite <- join_prefix, <- join_prefix. reflexivity.
Qed.

Lemma cs_string_toks c :
  cs_ninv c -> cs_all c = false -> cs_isempty c = false -> cs_string c = join comma (toks c).
Proof.
  intros Hn Ha He. unfold cs_string. rewrite Ha, He. cbn [flat_map]. rewrite app_nil_r.
  change (match cs_get c SCTP with Some ps => [proto_str SCTP ++ " " ++ ps_string ps] | None => [] end) with (piece c SCTP).
  change (match cs_get c TCP with Some ps => [proto_str TCP ++ " " ++ ps_string ps] | None => [] end) with (piece c TCP).
  change (match cs_get c UDP with Some ps => [proto_str UDP ++ " " ++ ps_string ps] | None => [] end) with (piece c UDP).
  rewrite !piece_is by exact Hn. apply join_optl3.
Qed.

Lemma grp_not_comma c p : cs_wf c -> Forall (fun s => all_chars not_comma s = true) (grp c p).
Proof.
  intros Hw. unfold grp. destruct (cs_get c p) as [ps|] eqn:E; [|constructor].
  pose proof (ps_wf_ok ps (Hw p ps E)) as Ok.
  assert (A : Forall (fun s => all_chars not_comma s = true) (map ivl_str (ps_ports ps))).
  { apply Forall_forall. intros t Ht. apply in_map_iff in Ht. destruct Ht as (w & <- & Hin).
    apply (all_chars_weaken is_tok); [exact tok_not_comma|]. apply ivl_str_tok. rewrite Forall_forall in Ok. exact (Ok w Hin). }
  destruct (map ivl_str (ps_ports ps)) as [|t ts]; [constructor|].
  inversion A as [|? ? A1 A2]; subst. constructor; [|exact A2].
  rewrite !all_chars_app, A1. destruct p; reflexivity.
Qed.

Lemma toks_not_comma c : cs_wf c -> Forall (fun s => all_chars not_comma s = true) (toks c).
Proof. intros Hw. unfold toks. rewrite !Forall_app. repeat split; apply grp_not_comma; exact Hw. Qed.

Definition stu (s : string) : Prop := exists p, lead s = Some (first_letter p).

Lemma lead_join sep h t : h <> "" -> lead (join sep (h :: t)) = lead h.
Proof. intros Hh. destruct h as [|x h]; [congruence|]. destruct t; reflexivity. Qed.

Lemma toks_nonempty c :
  cs_ninv c -> cs_isempty c = false -> cs_all c = false -> toks c <> [] /\ stu (join comma (toks c)).
Proof.
  intros Hn He Ha. destruct Hn as (Wc & Nc & _ & Ec & _).
  assert (G : forall p ps, cs_get c p = Some ps -> exists h t, grp c p = h :: t /\ lead h = Some (first_letter p) /\ h <> "").
  { intros p ps E. unfold grp. rewrite E. pose proof (Ec p ps E) as Ne. destruct (ps_ports ps) as [|v s]; [congruence|].
    cbn [map]. eexists. eexists. split; [reflexivity|]. split; destruct p; cbn; congruence. }
  unfold toks. unfold cs_isempty in He. rewrite Ha in He. cbn [negb andb] in He. unfold cs_len, all_protos in He. cbn [filter] in He.
  destruct (cs_get c SCTP) as [ps|] eqn:E1.
  { destruct (G SCTP ps E1) as (h & t & -> & L & N). split; [discriminate|]. exists SCTP. cbn [app]. rewrite lead_join by exact N. exact L. }
  assert (grp c SCTP = []) as -> by (unfold grp; rewrite E1; reflexivity). cbn [app].
  destruct (cs_get c TCP) as [ps|] eqn:E2.
  { destruct (G TCP ps E2) as (h & t & -> & L & N). split; [discriminate|]. exists TCP. cbn [app]. rewrite lead_join by exact N. exact L. }
  assert (grp c TCP = []) as -> by (unfold grp; rewrite E2; reflexivity). cbn [app].
  destruct (cs_get c UDP) as [ps|] eqn:E3.
  { destruct (G UDP ps E3) as (h & t & -> & L & N). split; [discriminate|]. exists UDP. rewrite lead_join by exact N. exact L. }
  cbn in He. discriminate.
Qed.

Lemma empty_gets c : cs_all c = false -> cs_isempty c = true -> forall p, cs_get c p = None.
Proof.
  intros Ha He. unfold cs_isempty in He. rewrite Ha in He. cbn [negb andb] in He. unfold cs_len, all_protos in He. cbn [filter] in He.
  destruct (cs_get c TCP) eqn:E1, (cs_get c UDP) eqn:E2, (cs_get c SCTP) eqn:E3; cbn in He; try discriminate.
  intros [| |]; assumption.
Qed.

Theorem cs_string_inj c o : cs_ninv c -> cs_ninv o -> cs_string c = cs_string o -> c = o.
Proof.
  intros Hc Ho H.
  assert (STU_A : ~ stu allConnsStr) by (intros ([| |] & L); discriminate).
  assert (STU_N : ~ stu noConnsStr) by (intros ([| |] & L); discriminate).
  destruct (cs_all c) eqn:Ac, (cs_all o) eqn:Ao.
  - apply cs_ext; [congruence|]. intros p. destruct Hc as (_ & _ & N1 & _), Ho as (_ & _ & N2 & _).
    rewrite (N1 Ac p), (N2 Ao p). reflexivity.
  - exfalso. unfold cs_string at 1 in H. rewrite Ac in H. destruct (cs_isempty o) eqn:Eo.
    + unfold cs_string in H. rewrite Ao, Eo in H. discriminate.
    + rewrite (cs_string_toks o Ho Ao Eo) in H. apply STU_A. rewrite H. apply (toks_nonempty o Ho Eo Ao).
  - exfalso. unfold cs_string at 2 in H. rewrite Ao in H. destruct (cs_isempty c) eqn:Ec.
    + unfold cs_string in H. rewrite Ac, Ec in H. discriminate.
    + rewrite (cs_string_toks c Hc Ac Ec) in H. apply STU_A. rewrite <- H. apply (toks_nonempty c Hc Ec Ac).
  - destruct (cs_isempty c) eqn:Ec, (cs_isempty o) eqn:Eo.
    + apply cs_ext; [congruence|]. intros p. rewrite (empty_gets c Ac Ec p), (empty_gets o Ao Eo p). reflexivity.
    + exfalso. unfold cs_string at 1 in H. rewrite Ac, Ec in H. rewrite (cs_string_toks o Ho Ao Eo) in H.
      apply STU_N. rewrite H. apply (toks_nonempty o Ho Eo Ao).
    + exfalso. unfold cs_string at 2 in H. rewrite Ao, Eo in H. rewrite (cs_string_toks c Hc Ac Ec) in H.
      apply STU_N. rewrite <- H. apply (toks_nonempty c Hc Ec Ac).
    + rewrite (cs_string_toks c Hc Ac Ec), (cs_string_toks o Ho Ao Eo) in H.
      pose proof Hc as (Wc & _). pose proof Ho as (Wo & _).
      apply (join_inj not_comma ",") in H;
        [|reflexivity|apply toks_not_comma; exact Wc|apply toks_not_comma; exact Wo
         |apply (toks_nonempty c Hc Ec Ac)|apply (toks_nonempty o Ho Eo Ao)].
      apply cs_ext; [congruence|]. intros p. apply grp_inj; [exact Hc|exact Ho|].
      apply toks_inj_groups; assumption.
Qed.

(* characters of a printed connection: no newline, and (for the row formats) a known alphabet *)
Definition conn_char (ch : ascii) : bool :=
  is_digit ch || Ascii.eqb ch "-" || Ascii.eqb ch "," || Ascii.eqb ch " "
  || match ch with "A" | "l" | "C" | "o" | "n" | "e" | "c" | "t" | "i" | "s" | "N" | "S" | "T" | "P" | "U" | "D" => true | _ => false end%char.

Lemma all_chars_join f sep l :
  all_chars f sep = true -> Forall (fun s => all_chars f s = true) l -> all_chars f (join sep l) = true.
Proof.
  intros Hs Hl. induction l as [|x l IH]; [reflexivity|]. inversion Hl as [|? ? Hx Hl2]; subst. destruct l as [|y l]; [exact Hx|].
  rewrite join_cons, !all_chars_app, Hx, Hs, (IH Hl2). reflexivity.
Qed.

Lemma cs_string_chars c : cs_ninv c -> all_chars conn_char (cs_string c) = true.
Proof.
  intros Hn. destruct (cs_all c) eqn:Ac; [unfold cs_string; rewrite Ac; reflexivity|].
  destruct (cs_isempty c) eqn:Ec; [unfold cs_string; rewrite Ac, Ec; reflexivity|].
  rewrite (cs_string_toks c Hn Ac Ec). apply all_chars_join; [reflexivity|].
  destruct Hn as (Wc & _). unfold toks. rewrite !Forall_app.
  assert (G : forall p, Forall (fun s => all_chars conn_char s = true) (grp c p)).
  { intros p. unfold grp. destruct (cs_get c p) as [ps|] eqn:E; [|constructor].
    pose proof (ps_wf_ok ps (Wc p ps E)) as Ok.
    assert (A : Forall (fun s => all_chars conn_char s = true) (map ivl_str (ps_ports ps))).
    { apply Forall_forall. intros t Ht. apply in_map_iff in Ht. destruct Ht as (w & <- & Hin).
      apply (all_chars_weaken is_tok).
      - intros ch Hch. unfold is_tok in Hch. unfold conn_char. apply orb_true_iff in Hch. destruct Hch as [->| ->]; [reflexivity|].
        rewrite orb_true_r. reflexivity.
      - apply ivl_str_tok. rewrite Forall_forall in Ok. exact (Ok w Hin). }
    destruct (map ivl_str (ps_ports ps)) as [|t ts]; [constructor|].
    inversion A as [|? ? A1 A2]; subst. constructor; [|exact A2].
    rewrite !all_chars_app, A1. destruct p; reflexivity. }
  repeat split; apply G.
Qed.
