# C15 — PolicyEngine answers depend on current objects only, not on update history.
# Random histories of InsertObject / DeleteObject / SetResources / ClearResources and CheckIfAllowed queries, biased to
# "query, update something the query depended on, same query again"; every query is answered by the engine under test,
# by a FRESH real engine filled with the current objects (model-independent oracle) and by the Gallina state machine
# (Model/Engine.v, whose cache invariant is proved in Properties/C15.v).  Deletes are issued with fresh equal copies.
import copy, ipaddress, json
from .lib import core, gen, listcorr
from .lib.core import cstr, cz, cnat, clist, cbool

NSS = ['ns1', 'ns2', 'default']


def mk_pod(r, i, nss):
    ports = []
    for nm in r.sample(gen.NAMES, r.randint(0, 2)):
        ports.append({'port': r.choice(gen.PORTS), 'proto': r.choice(gen.PROTOS), 'name': nm})
    if r.random() < 0.3:
        ports.append({'port': r.choice(gen.PORTS), 'proto': 'TCP', 'name': ''})
    p = {'kind': 'Pod', 'ns': r.choice(nss), 'name': 'p%d' % i, 'labels': {k: r.choice(gen.VALS) for k in r.sample(gen.KEYS, r.randint(0, 2))},
         'ports': ports, 'replicas': None, 'owner': {'name': 'own%d' % i, 'kind': 'ReplicaSet'} if r.random() < 0.85 else None}
    return p


def pod_doc_term(w):
    own = 'None' if not w.get('owner') else '(Some (%s, %s))' % (cstr(w['owner']['name']), cstr(w['owner']['kind']))
    return '(mkPodDoc %s %s %s %s %s true)' % (cstr(w['ns']), cstr(w['name']), gen.c_labels(w['labels']), gen.c_cports(w['ports']), own)


def ns_term(n):
    return '(mkNs %s %s)' % (cstr(n['name']), gen.c_labels(n['labels']))


class Hist:
    def __init__(self, r, tier):
        self.r = r
        self.ops = []       # (go op dict, coq term, is_query)
        self.nss = NSS[:r.randint(1, 3)]
        self.cur = {}       # ('Pod', ns, name) -> scenario dict, etc.
        self.pool_anp = 0
        self.W = gen.gen_world(r, anp=True, pods=True)     # source of policies
        for p in self.W['netpols']:
            p['ns'] = r.choice(self.nss)
        self.last_q = None

    # ---- op builders
    def ins_ns(self, n):
        self.ops.append(({'op': 'insert', 'kind': 'Namespace', 'obj': gen.ns_manifest(n)}, '(EInsNs %s)' % ns_term(n), False))
        self.cur[('Namespace', '', n['name'])] = n

    def del_ns(self, name):
        self.ops.append(({'op': 'delete', 'kind': 'Namespace', 'obj': {'metadata': {'name': name}}}, '(EDelNs %s)' % cstr(name), False))
        self.cur.pop(('Namespace', '', name), None)

    def ins_pod(self, w):
        self.ops.append(({'op': 'insert', 'kind': 'Pod', 'obj': gen.workload_manifest(w)}, '(EInsPod %s)' % pod_doc_term(w), False))
        self.cur[('Pod', w['ns'], w['name'])] = w

    def del_pod(self, ns, name):
        self.ops.append(({'op': 'delete', 'kind': 'Pod', 'obj': {'metadata': {'name': name, 'namespace': ns}}}, '(EDelPod %s %s)' % (cstr(ns), cstr(name)), False))
        self.cur.pop(('Pod', ns, name), None)

    def ins_np(self, p):
        self.ops.append(({'op': 'insert', 'kind': 'NetworkPolicy', 'obj': gen.netpol_manifest(p)}, '(EInsNp %s)' % gen.c_netpol(p), False))
        self.cur.setdefault(('NetworkPolicy', p['ns'] or 'default', p['name']), p)

    def del_np(self, ns, name):
        meta = {'name': name}
        if ns is not None:
            meta['namespace'] = ns
        self.ops.append(({'op': 'delete', 'kind': 'NetworkPolicy', 'obj': {'metadata': meta}}, '(EDelNp %s %s)' % (cstr(ns or ''), cstr(name)), False))
        self.cur.pop(('NetworkPolicy', ns or 'default', name), None)

    def ins_anp(self, a):
        self.ops.append(({'op': 'insert', 'kind': 'AdminNetworkPolicy', 'obj': gen.anp_manifest(a)}, '(EInsAnp %s)' % gen.c_anp(a), False))
        self.cur.setdefault(('AdminNetworkPolicy', '', a['name']), a)

    def del_anp(self, name):
        self.ops.append(({'op': 'delete', 'kind': 'AdminNetworkPolicy', 'obj': {'metadata': {'name': name}}}, '(EDelAnp %s)' % cstr(name), False))
        self.cur.pop(('AdminNetworkPolicy', '', name), None)

    def ins_banp(self, b):
        self.ops.append(({'op': 'insert', 'kind': 'BaselineAdminNetworkPolicy', 'obj': gen.banp_manifest(b)}, '(EInsBanp %s)' % gen.c_banp(b), False))
        if not any(k[0] == 'BaselineAdminNetworkPolicy' for k in self.cur) and b.get('name', 'default') == 'default':
            self.cur[('BaselineAdminNetworkPolicy', '', 'default')] = b

    def del_banp(self, name):
        self.ops.append(({'op': 'delete', 'kind': 'BaselineAdminNetworkPolicy', 'obj': {'metadata': {'name': name}}}, '(EDelBanp %s)' % cstr(name), False))
        if name == 'default':
            self.cur.pop(('BaselineAdminNetworkPolicy', '', 'default'), None)

    def query(self, q=None):
        r = self.r
        pods = [k for k in self.cur if k[0] == 'Pod']
        if q is None:
            def end():
                x = r.random()
                if pods and x < 0.8:
                    k = r.choice(pods)
                    return ('pod', k[1] + '/' + k[2])
                if x < 0.9:
                    return ('pod', r.choice(self.nss) + '/p%d' % r.randint(0, 7))      # maybe absent
                return ('ip', r.choice([0x0A010203, 0x08080808, 0xC0A80001, 0]))
            s, d = end(), end()
            if s[0] == 'ip' and d[0] == 'ip':
                d = ('pod', r.choice(self.nss) + '/p0')
            q = (s, d, r.choice(gen.PROTOS), r.choice(gen.PORTS))
        self.last_q = q
        def qs(x):
            return x[1] if x[0] == 'pod' else str(ipaddress.ip_address(x[1]))
        def cq(x):
            return '(QPod %s)' % cstr(x[1]) if x[0] == 'pod' else '(QIP %s)' % cz(x[1])
        self.ops.append(({'op': 'query', 'q': [qs(q[0]), qs(q[1]), q[2], str(q[3])]},
                         '(EQuery (mkQ %s %s %s %s))' % (cq(q[0]), cq(q[1]), q[2], cz(q[3])), True))

    # ---- one random update
    def update(self, dep=None):
        r = self.r
        x = r.random()
        pods = [k for k in self.cur if k[0] == 'Pod']
        if dep is not None and r.random() < 0.7:
            # something the last query depended on: the namespaces / pods of its ends, or any policy
            ends = [e[1] for e in dep[:2] if e[0] == 'pod']
            if ends and x < 0.35:
                ns = r.choice(ends).split('/')[0]
                return self.ins_ns({'name': ns, 'labels': {k: r.choice(gen.VALS) for k in r.sample(gen.KEYS, r.randint(0, 2))}})
            if ends and x < 0.6:
                ns, name = r.choice(ends).split('/')
                w = self.cur.get(('Pod', ns, name))
                if w is not None:
                    w2 = copy.deepcopy(w)
                    y = r.random()
                    if y < 0.4:
                        w2['labels'] = {k: r.choice(gen.VALS) for k in r.sample(gen.KEYS, r.randint(0, 2))}
                    elif y < 0.8 and w2['ports']:
                        for cp in w2['ports']:
                            if r.random() < 0.7:
                                cp['port'] = r.choice(gen.PORTS)
                    else:
                        return self.del_pod(ns, name)
                    return self.ins_pod(w2)
        if x < 0.12:
            n = r.choice(self.nss)
            return self.ins_ns({'name': n, 'labels': {k: r.choice(gen.VALS) for k in r.sample(gen.KEYS, r.randint(0, 2))}})
        if x < 0.16:
            return self.del_ns(r.choice(self.nss + ['nsX']))
        if x < 0.30:
            return self.ins_pod(mk_pod(r, r.randint(0, 5), self.nss))
        if x < 0.36:
            if pods and r.random() < 0.7:
                k = r.choice(pods)
                return self.del_pod(k[1], k[2])
            return self.del_pod(r.choice(self.nss), 'p%d' % r.randint(0, 7))          # maybe absent
        if x < 0.50 and self.W['netpols']:
            p = copy.deepcopy(r.choice(self.W['netpols']))
            if r.random() < 0.1:
                p['ns'] = None            # stored under default
            return self.ins_np(p)
        if x < 0.60:
            nps = [k for k in self.cur if k[0] == 'NetworkPolicy']
            if nps and r.random() < 0.8:
                k = r.choice(nps)
                return self.del_np(k[1] if r.random() < 0.9 or k[1] != 'default' else None, k[2])
            return self.del_np(r.choice(self.nss), 'np%d' % r.randint(0, 5))
        if x < 0.74 and self.W['anps']:
            a = copy.deepcopy(r.choice(self.W['anps']))
            if r.random() < 0.3:
                a['priority'] = r.choice([0, 3, 7, 20, 100, 500, 1000])
            return self.ins_anp(a)
        if x < 0.82:
            anps = [k for k in self.cur if k[0] == 'AdminNetworkPolicy']
            if anps and r.random() < 0.8:
                return self.del_anp(r.choice(anps)[2])
            return self.del_anp('anp%d' % r.randint(0, 6))
        if x < 0.90:
            b = self.W['banp'] or {'name': 'default', 'subject': {'namespaces': {}}, 'ingress': [{'name': 'b', 'action': 'Deny', 'from': [{'namespaces': {}}],
                                                                                                  'ports': [{'portNumber': {'protocol': 'TCP', 'port': r.choice(gen.PORTS)}}]}]}
            return self.ins_banp(copy.deepcopy(b))
        if x < 0.96:
            return self.del_banp(r.choice(['default', 'default', 'other']))
        if x < 0.985:
            nss = [{'name': n, 'labels': {k: r.choice(gen.VALS) for k in r.sample(gen.KEYS, r.randint(0, 1))}} for n in r.sample(self.nss, r.randint(0, len(self.nss)))]
            pods_ = [mk_pod(r, r.randint(0, 5), self.nss) for _ in range(r.randint(0, 2))]
            seen, uniq = set(), []
            for w in pods_:
                if w['name'] not in seen:
                    seen.add(w['name']); uniq.append(w)
            nps_ = []
            if self.W['netpols'] and r.random() < 0.5:
                cand = copy.deepcopy(r.choice(self.W['netpols']))
                nps_ = [cand]
            self.ops.append(({'op': 'setres', 'nss': [gen.ns_manifest(n) for n in nss], 'nps': [gen.netpol_manifest(p) for p in nps_],
                              'pods': [gen.workload_manifest(w) for w in uniq]},
                             '(ESetRes %s %s %s)' % (clist([gen.c_netpol(p) for p in nps_]), clist([pod_doc_term(w) for w in uniq]), clist([ns_term(n) for n in nss])), False))
            for n in nss:
                self.cur[('Namespace', '', n['name'])] = n
            for p in nps_:
                self.cur.setdefault(('NetworkPolicy', p['ns'] or 'default', p['name']), p)
            for w in uniq:
                self.cur[('Pod', w['ns'], w['name'])] = w
            return
        self.ops.append(({'op': 'clear'}, 'EClear', False))
        self.cur = {}


def gen_history(r, tier):
    h = Hist(r, tier)
    for n in h.nss:
        if r.random() < 0.6:
            h.ins_ns({'name': n, 'labels': {k: r.choice(gen.VALS) for k in r.sample(gen.KEYS, r.randint(0, 2))}})
    for i in range(r.randint(2, 5)):
        h.ins_pod(mk_pod(r, i, h.nss))
    length = r.randint(6, 40 if tier == 'quick' else 150)
    while len(h.ops) < length:
        x = r.random()
        if x < 0.3:
            h.query()
        elif x < 0.65 and h.last_q is not None:
            q = h.last_q
            h.update(dep=q)
            h.query(q)
        else:
            h.update()
    if h.last_q:
        h.query(h.last_q)
    # motif 1: a verdict that depends on the number behind a named port; the pod is then updated in place (same labels)
    if r.random() < 0.3:
        ns = r.choice(h.nss)
        nm, n1, n2 = r.choice(gen.NAMES), r.choice(gen.PORTS), r.choice(gen.PORTS)
        pr = r.choice(gen.PROTOS)
        src = {'kind': 'Pod', 'ns': ns, 'name': 'msrc', 'labels': {'app': 'a'}, 'ports': [], 'replicas': None, 'owner': {'name': 'own-msrc', 'kind': 'ReplicaSet'}}
        dst = {'kind': 'Pod', 'ns': ns, 'name': 'mdst', 'labels': {'app': 'b'}, 'ports': [{'port': n1, 'proto': pr, 'name': nm}], 'replicas': None,
               'owner': {'name': 'own-mdst', 'kind': 'ReplicaSet'}}
        h.ins_pod(src); h.ins_pod(dst)
        h.ins_np({'ns': ns, 'name': 'npnamed', 'podSelector': {'matchLabels': {'app': 'b'}}, 'policyTypes': ['Ingress'],
                  'ingress': [{'ports': [{'protocol': pr, 'port': nm}]}]})
        q = (('pod', ns + '/msrc'), ('pod', ns + '/mdst'), pr, n1)
        h.query(q)
        dst2 = copy.deepcopy(dst); dst2['ports'][0]['port'] = n2
        h.ins_pod(dst2)
        h.query(q)
        h.query((q[0], q[1], pr, n2))
    # motif 6: a verdict that depends on the labels of the SOURCE namespace; the Namespace object is then updated in place
    if r.random() < 0.3 and len(h.nss) >= 2:
        nsa, nsb = r.sample(h.nss, 2)
        h.ins_ns({'name': nsa, 'labels': {'env': 'a'}})
        a = {'kind': 'Pod', 'ns': nsa, 'name': 'lsrc', 'labels': {'app': 'a'}, 'ports': [], 'replicas': None, 'owner': {'name': 'own-lsrc', 'kind': 'ReplicaSet'}}
        b = {'kind': 'Pod', 'ns': nsb, 'name': 'ldst', 'labels': {'app': 'l'}, 'ports': [], 'replicas': None, 'owner': {'name': 'own-ldst', 'kind': 'ReplicaSet'}}
        h.ins_pod(a); h.ins_pod(b)
        h.ins_np({'ns': nsb, 'name': 'npnslabel', 'podSelector': {'matchLabels': {'app': 'l'}}, 'policyTypes': ['Ingress'],
                  'ingress': [{'from': [{'namespaceSelector': {'matchLabels': {'env': 'a'}}}]}]})
        q = (('pod', nsa + '/lsrc'), ('pod', nsb + '/ldst'), 'TCP', 80)
        h.query(q)
        h.ins_ns({'name': nsa, 'labels': {'env': 'b'}})
        h.query(q)
        h.ins_ns({'name': nsa, 'labels': {'env': 'a'}})
        h.query(q)
    # motif 5: one port number allowed on one protocol only, asked about on all three in a row: what is remembered for one protocol
    # says nothing about another
    if r.random() < 0.3:
        ns = r.choice(h.nss)
        a = {'kind': 'Pod', 'ns': ns, 'name': 'psrc', 'labels': {'app': 'a'}, 'ports': [], 'replicas': None, 'owner': {'name': 'own-psrc', 'kind': 'ReplicaSet'}}
        b = {'kind': 'Pod', 'ns': ns, 'name': 'pdst', 'labels': {'app': 'p'}, 'ports': [], 'replicas': None, 'owner': {'name': 'own-pdst', 'kind': 'ReplicaSet'}}
        h.ins_pod(a); h.ins_pod(b)
        pr, pt = r.choice(gen.PROTOS), r.choice(gen.PORTS)
        h.ins_np({'ns': ns, 'name': 'npproto', 'podSelector': {'matchLabels': {'app': 'p'}}, 'policyTypes': ['Ingress'],
                  'ingress': [{'ports': [{'protocol': pr, 'port': pt}]}]})
        order = list(gen.PROTOS)
        r.shuffle(order)
        for q_pr in order + [order[0]]:
            h.query((('pod', ns + '/psrc'), ('pod', ns + '/pdst'), q_pr, pt))
    # motif 4: two NetworkPolicies in one namespace, a cached verdict that depends on one of them, which is then deleted
    if r.random() < 0.3:
        ns = r.choice(h.nss)
        a = {'kind': 'Pod', 'ns': ns, 'name': 'nsrc', 'labels': {'app': 'a'}, 'ports': [], 'replicas': None, 'owner': {'name': 'own-nsrc', 'kind': 'ReplicaSet'}}
        b = {'kind': 'Pod', 'ns': ns, 'name': 'ndst', 'labels': {'app': 'n'}, 'ports': [], 'replicas': None, 'owner': {'name': 'own-ndst', 'kind': 'ReplicaSet'}}
        h.ins_pod(a); h.ins_pod(b)
        pr, pt = r.choice(gen.PROTOS), r.choice(gen.PORTS)
        h.ins_np({'ns': ns, 'name': 'npkeep', 'podSelector': {'matchLabels': {'app': 'n'}}, 'policyTypes': ['Ingress'],
                  'ingress': [{'ports': [{'protocol': 'TCP', 'port': 9}]}]})
        h.ins_np({'ns': ns, 'name': 'npgone', 'podSelector': {'matchLabels': {'app': 'n'}}, 'policyTypes': ['Ingress'],
                  'ingress': [{'ports': [{'protocol': pr, 'port': pt}]}]})
        q = (('pod', ns + '/nsrc'), ('pod', ns + '/ndst'), pr, pt)
        h.query(q)
        h.del_np(ns, 'npgone')
        h.query(q)
        if r.random() < 0.5:
            h.del_np(ns, 'npkeep')
            h.query(q)
    # motif 3: three conflicting ANPs on the same peers and port inserted one by one in a non-priority order (the last one
    # in the middle), then queried: the verdict must follow the priorities, not the insertion order
    if r.random() < 0.3:
        ns = r.choice(h.nss)
        a = {'kind': 'Pod', 'ns': ns, 'name': 'asrc', 'labels': {'app': 'a'}, 'ports': [], 'replicas': None, 'owner': {'name': 'own-asrc', 'kind': 'ReplicaSet'}}
        b = {'kind': 'Pod', 'ns': ns, 'name': 'adst', 'labels': {'app': 'b'}, 'ports': [], 'replicas': None, 'owner': {'name': 'own-adst', 'kind': 'ReplicaSet'}}
        h.ins_pod(a); h.ins_pod(b)
        pr, pt = r.choice(gen.PROTOS), r.choice(gen.PORTS)
        prios = sorted(r.sample([2, 4, 6, 8, 12, 40, 60, 300, 700, 900], 3))
        acts = r.choice([('Allow', 'Deny', 'Allow'), ('Deny', 'Allow', 'Deny'), ('Pass', 'Deny', 'Allow'), ('Pass', 'Allow', 'Deny'), ('Allow', 'Allow', 'Deny')])
        d = r.choice(['ingress', 'egress'])
        def mk(i):
            return {'name': 'sw%d' % i, 'priority': prios[i], 'subject': {'namespaces': {}},
                    d: [{'name': 'r', 'action': acts[i], 'from' if d == 'ingress' else 'to': [{'namespaces': {}}],
                         'ports': [{'portNumber': {'protocol': pr, 'port': pt}}]}]}
        order = r.choice([(0, 2, 1), (2, 0, 1), (1, 2, 0), (2, 1, 0), (1, 0, 2)])
        q = (('pod', ns + '/asrc'), ('pod', ns + '/adst'), pr, pt)
        for i in order:
            h.ins_anp(mk(i))
            if r.random() < 0.5:
                h.query(q)
        h.query(q)
        h.del_anp('sw%d' % r.choice([0, 1, 2]))
        h.query(q)
    # motif 2: egress allowed, ingress evaluation fails (a selector apimachinery rejects): the error must not turn into a cached verdict
    if r.random() < 0.3:
        # in a namespace of its own: with a second policy selecting the same pod the answer (error or verdict) would depend on the
        # order in which Go iterates the policy map, which no history-independence check can pin down
        ns = 'nse'
        src = {'kind': 'Pod', 'ns': ns, 'name': 'esrc', 'labels': {'app': 'a'}, 'ports': [], 'replicas': None, 'owner': {'name': 'own-esrc', 'kind': 'ReplicaSet'}}
        dst = {'kind': 'Pod', 'ns': ns, 'name': 'edst', 'labels': {'app': 'e'}, 'ports': [], 'replicas': None, 'owner': {'name': 'own-edst', 'kind': 'ReplicaSet'}}
        h.ins_pod(src); h.ins_pod(dst)
        bad_sel = {'matchExpressions': [{'key': 'app', 'operator': r.choice(['In', 'NotIn']), 'values': []}]}
        h.ins_np({'ns': ns, 'name': 'npbad', 'podSelector': {'matchLabels': {'app': 'e'}}, 'policyTypes': ['Ingress'],
                  'ingress': [{'from': [{'podSelector': bad_sel}]}]})
        q = (('pod', ns + '/esrc'), ('pod', ns + '/edst'), r.choice(gen.PROTOS), r.choice(gen.PORTS))
        h.query(q); h.query(q)
        h.del_np(ns, 'npbad')
        h.query(q)
    return h


def obs_term(kind_is_query, op_err, ans):
    if kind_is_query:
        if ans == 'true':
            return '(OpAns true)'
        if ans == 'false':
            return '(OpAns false)'
        return 'OpPanic' if ans.startswith('panic') else 'OpErr'
    if op_err == 'ok':
        return 'OpOk'
    return 'OpPanic' if op_err.startswith('panic') else 'OpErr'


def shrink_ops(ops, fails):
    cur = list(ops)
    budget = 60
    chunk = max(1, len(cur) // 2)
    while chunk >= 1 and budget > 0:
        k, progressed = 0, False
        while k < len(cur) and budget > 0:
            cand = cur[:k] + cur[k + chunk:]
            budget -= 1
            if cand and fails(cand):
                cur = cand; progressed = True
            else:
                k += chunk
        if chunk == 1 and not progressed:
            break
        chunk = chunk // 2 if chunk > 1 else (1 if progressed else 0)
    return cur


def run_histories(run, h, hists):
    cmds = [{'id': str(i), 'cmd': 'history', 'fresh': True, 'ops': [g for g, _, _ in hh.ops]} for i, hh in hists]
    outs = h.run(cmds)
    cases = []
    bad = {}
    for (cid, hh), o in zip(hists, outs):
        qi = 0
        terms = []
        for k, (g, t, isq) in enumerate(hh.ops):
            if isq:
                a = o['answers'][qi]
                f = o['fresh_answers'][qi]
                qi += 1
                terms.append('(%s, %s)' % (t, obs_term(True, None, a)))
                if a.startswith('panic'):
                    bad.setdefault(cid, ('panic', k, 'CheckIfAllowed panicked: ' + a))
                elif f.startswith('fresh-build-failed'):
                    pass
                elif a != f and not (a.startswith('err:') and f.startswith('err:')):
                    bad.setdefault(cid, ('stale', k, 'answer %s differs from a fresh engine holding the same objects (%s)' % (a, f)))
            else:
                e = o['op_errs'][k]
                terms.append('(%s, %s)' % (t, obs_term(False, e, None)))
                if e.startswith('panic'):
                    bad.setdefault(cid, ('panic', k, 'update panicked: ' + e))
        cases.append('(mkHC %s %s)' % (cnat(cid), clist(terms)))
    text = ['From Coq Require Import List ZArith String.', 'From NP Require Import IntervalSet ConnSet World Eval EvalPoint Build EvalCase Engine.',
            'Import ListNotations.', 'Open Scope Z_scope.', 'Definition cases : list hist_case := [', ';\n'.join(cases), '].',
            'Definition MM := Eval vm_compute in hist_mismatches cases.', 'Print MM.']
    rc, out, err = core.run_coq_text('\n'.join(text))
    if rc != 0:
        raise RuntimeError('coqc on history cases failed: ' + err[-1500:])
    mm = core.parse_pairs(out, 'MM') or []
    return outs, bad, mm


def main(tier):
    run = core.Run('C15', tier)
    run.cov['rule'] = ('random histories (6-40 ops, thorough 150) over 1-3 namespaces, up to 6 owned/bare pods with named ports, NetworkPolicies, ANPs (re-inserted with other priorities), BANP: '
                       'InsertObject (incl. in-place updates), DeleteObject with fresh equal copies (incl. absent objects, policies without namespace), SetResources, ClearResources, CheckIfAllowed; '
                       'biased to query / update what it depended on / same query; each query answered by the engine, a fresh real engine with the current objects, and the Gallina state machine; '
                       'non-trivial = at least 3 queries and 3 updates between first and last query; distinct by op-list hash')
    run.stage_proofs()
    b = core.build_go(['verifapi'], run.log)
    if not b['verifapi'][0]:
        run.proof_ok = False
        run.proof_notes.append('harness verifapi does not build against this tree: ' + b['verifapi'][1][-600:])
        return run.finish()
    n = 300 if tier == 'quick' else 8000
    h = listcorr.Harness()
    try:
        shard, k = 150, 0
        while k < n and len(run.violations) < 3:
            hists = [(k + i, gen_history(run.rng, tier)) for i in range(min(shard, n - k))]
            outs, bad, mm = run_histories(run, h, hists)
            run.count(len(hists))
            run.cov['traces_validated_against_impl'] += len(hists)
            for cid, hh in hists:
                nq = sum(1 for _, _, q in hh.ops if q)
                run.dist('ops<=15' if len(hh.ops) <= 15 else 'ops<=40' if len(hh.ops) <= 40 else 'ops>40')
                for g, _, _ in hh.ops:
                    run.dist('op:' + g['op'] + (':' + g['kind'] if 'kind' in g else ''))
                if nq >= 3 and len(hh.ops) - nq >= 3:
                    run.nontrivial([g for g, _, _ in hh.ops])
            if k == 0:
                run.sample({'ops': [g for g, _, _ in hists[0][1].ops][:10]})
            byid = dict(hists)
            for cid, (kind, idx, note) in list(bad.items())[:3]:
                hh = byid[cid]

                def fails(ops, kind=kind):
                    hx = copy.copy(hh); hx.ops = ops
                    _, b2, _ = run_histories(run, h, [(cid, hx)])
                    return cid in b2 and b2[cid][0] == kind
                small = shrink_ops(hh.ops, fails)
                hx = copy.copy(hh); hx.ops = small
                o2, b2, _ = run_histories(run, h, [(cid, hx)])
                run.report(None, '%s-%d' % (kind, cid), {'kind': 'history', 'what': note, 'ops': [g for g, _, _ in small], 'coq_ops': [t for _, t, _ in small],
                                                        'observed': {'answers': o2[0].get('answers'), 'fresh_answers': o2[0].get('fresh_answers'), 'op_errs': o2[0].get('op_errs')},
                                                        'how': 'feed the ops to eval.NewPolicyEngine() through InsertObject/DeleteObject/SetResources/CheckIfAllowed (harness/go/verifapi, cmd history)'}, note)
            for cid, idx in mm[:3]:
                if cid in bad:
                    continue
                hh = byid[cid]

                def fails2(ops):
                    hx = copy.copy(hh); hx.ops = ops
                    _, _, m2 = run_histories(run, h, [(cid, hx)])
                    return bool(m2)
                small = shrink_ops(hh.ops, fails2)
                hx = copy.copy(hh); hx.ops = small
                o2, _, m2 = run_histories(run, h, [(cid, hx)])
                run.report(None, 'model-%d' % cid, {'kind': 'history-model-correspondence', 'first_disagreeing_op': m2[0][1] if m2 else idx, 'ops': [g for g, _, _ in small],
                                                    'coq_ops': [t for _, t, _ in small],
                                                    'observed': {'answers': o2[0].get('answers'), 'fresh_answers': o2[0].get('fresh_answers'), 'op_errs': o2[0].get('op_errs')}},
                           'engine differs from the Gallina state machine (Model/Engine.v) at op %d' % idx)
            k += shard
    finally:
        h.close()
    return run.finish()


def replay(payload):
    run = core.Run('C15', 'quick')
    run.stage_proofs()
    core.build_go(['verifapi'], run.log)
    h = listcorr.Harness()
    try:
        o = h.run([{'id': 'r', 'cmd': 'history', 'fresh': True, 'ops': payload['ops']}])[0]
        print('answers      ', o.get('answers'))
        print('fresh_answers', o.get('fresh_answers'))
        print('op_errs      ', o.get('op_errs'))
        run.count(1)
        for a, f in zip(o.get('answers') or [], o.get('fresh_answers') or []):
            if a != f and not (a.startswith('err:') and f.startswith('err:')) and not f.startswith('fresh-build-failed'):
                run.report(None, 'replay', payload, 'answer differs from fresh engine')
                break
        if any(e.startswith('panic') for e in o.get('op_errs') or []):
            run.report(None, 'replay', payload, 'panic')
    finally:
        h.close()
    return run.finish()
